#!/usr/bin/env python3
# regenerates MANIFEST.json from props.py (claimed properties) + the not_applicable reasons below
import json, sys, os
sys.path.insert(0, os.path.dirname(os.path.abspath(__file__)))
import props
NA = {
 'C20': 'solver-based checking does not apply: the property is a round trip through libstdc++ stream formatting, the file system and a Python text parser plus a syntactic name-by-name correspondence inside pybind11 macros; nothing there is a bounded computation over the repository IR that an SMT encoding reaches (see DESIGN.md section 3, C20)',
}
ids = [json.loads(l)['id'] for l in open(os.path.join(os.path.dirname(os.path.abspath(__file__)), 'properties.jsonl'))]
checks = []
for i in ids:
    p = props.P.get(i)
    if not p or not p.get('claimed', True): continue
    checks.append(dict(property_id=i, quick_cmd='./check %s --tier quick' % i, thorough_cmd='./check %s --tier thorough' % i,
                       evidence_file='evidence/%s.json' % i, replay_cmd_template='./replay_cex {path}', engine='irsx',
                       level_claimed=dict(category='model_checking', text=p['level_text'], design_ref=p['design_ref']),
                       level_note=p.get('level_note', 'trusted: clang-14 lowering + UBSan instrumentation, irsx IR semantics (validated per run by native differential replay), stub models of std/boost/Eigen/lemon as listed in the evidence assumptions, z3 (cross-checked by cvc5). Bounded: every claim holds for all values inside the stated structural and value bounds only.'),
                       technique=p.get('technique', 'bounded symbolic execution of the real code (clang LLVM IR) with z3 deciding every verification condition; counterexamples replayed natively')))
na = [dict(property_id=i, reason=NA.get(i, props.P.get(i, {}).get('na_reason', 'check not built yet (work in progress)'))) for i in ids if i not in [c['property_id'] for c in checks]]
m = dict(version=1, setup_cmd='./setup.sh',
         hooks=dict(guard='COLOQUINTE_VERIF', enable='harness translation units are compiled with -DCOLOQUINTE_VERIF; no source commit uses the guard (no hooks are needed: private members are reached with #define private public in the harness TU)',
                    baseline_off_cmd='cmake --build /repo/_build && ctest --test-dir /repo/_build -j8 --timeout 900', source_commits=[], add_only=True),
         engines=[dict(name='irsx', path='irsx/', serves_properties=[c['property_id'] for c in checks],
                       kind_free_text='own symbolic executor over clang-14 LLVM IR of the real sources (regenerated from /repo on every run); z3 decides every verification condition, cvc5 cross-checks samples, g++/ASan/UBSan native build replays counterexamples')],
         checks=checks, not_applicable=na,
         notes='See DESIGN.md. ./check <id> --tier quick|thorough; known_findings.json lists genuine defects (fixed or recorded).')
json.dump(m, open(os.path.join(os.path.dirname(os.path.abspath(__file__)), 'MANIFEST.json'), 'w'), indent=1)
print('claimed:', [c['property_id'] for c in checks])
