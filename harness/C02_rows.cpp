// H02F: the row space that detailed placement works in (DetailedPlacement::fromIspdCircuit) excludes every cell it does not
// optimise.  H02A shows that every move keeps the optimised cells inside these row segments and apart from each other; legality
// with respect to the multi-row movable cells and the fixed obstructions follows only if the segments avoid their footprints,
// whatever the obstruction flag of a MOVABLE cell says (the flag has a meaning for fixed cells only), and no free column is lost.
#include "all_src.h"
#include "legal.h"
using namespace coloquinte;
extern "C" void harness() {
  const int RH = 10;
  Circuit c(3);
  int rw = __verif_nondet_int(12, 48);
  int w0 = __verif_nondet_int(2, 8), x0 = __verif_nondet_int(0, 40), yr = __verif_choice(2);   // tall movable cell on rows yr, yr+1
  int x1 = __verif_nondet_int(0, 45), r1 = __verif_choice(3);                                   // row-high movable cell
  int fw = __verif_nondet_int(1, 10), fx = __verif_nondet_int(-5, 50), fr = __verif_choice(3);  // fixed row-high cell
  int ob0 = __verif_choice(2), ob2 = __verif_choice(2);
  __verif_assume(x0 + w0 <= rw && x1 + 3 <= rw);
  std::vector<Row> rows;
  rows.push_back(Row(0, rw, 0, RH, CellOrientation::N)); rows.push_back(Row(0, rw, RH, 2 * RH, CellOrientation::FS)); rows.push_back(Row(0, rw, 2 * RH, 3 * RH, CellOrientation::N));
  c.setRows(rows);
  c.setCellWidth({w0, 3, fw}); c.setCellHeight({2 * RH, RH, RH});
  c.setCellX({x0, x1, fx}); c.setCellY({yr * RH, r1 * RH, fr * RH});
  c.setCellIsFixed({false, false, true});
  c.setCellIsObstruction({ob0 != 0, true, ob2 != 0});
  // legal start: the row-high cell is clear of the tall cell and of the fixed obstruction
  bool onTall = (r1 == yr || r1 == yr + 1) && x1 < x0 + w0 && x0 < x1 + 3;
  bool onFixed = ob2 && r1 == fr && x1 < fx + fw && fx < x1 + 3;
  __verif_assume(!onTall && !onFixed);
  bool tallOnFixed = ob2 && (fr == yr || fr == yr + 1) && x0 < fx + fw && fx < x0 + w0;
  __verif_assume(!tallOnFixed);
  c.addNet({0, 1}, {0, 0}, {0, 0});
  __verif_cover("circuit built");
  bool threw = false;
  alignas(8) char buf[sizeof(DetailedPlacement)];
  DetailedPlacement* plp = nullptr;
  try { plp = new (buf) DetailedPlacement(DetailedPlacement::fromIspdCircuit(c)); plp->check(); } catch (const std::runtime_error&) { threw = true; }
  VASSERT(!threw, "detailed placement accepts a legal placement");
  if (threw) return;
  DetailedPlacement& pl = *plp;
  VASSERT(pl.isIgnored(0) && pl.isIgnored(2) && !pl.isIgnored(1), "exactly the row-high movable cells are optimised");
  int q = __verif_nondet_int(-8, 56), qr = __verif_choice(3);   // an arbitrary column of an arbitrary row
  bool inSeg = false;
  const std::vector<Row>& rs = pl.rows();
  for (size_t i = 0; i < rs.size(); ++i) {
    const Row& r = rs[i];
    VASSERT(r.minX < r.maxX && r.maxY - r.minY == RH && r.minX >= 0 && r.maxX <= rw, "segments are row-high, non-empty and inside the rows");
    bool meetsTall = r.minX < x0 + w0 && x0 < r.maxX && r.minY < (yr + 2) * RH && yr * RH < r.maxY;
    VASSERT(!meetsTall, "no row segment of detailed placement runs through a multi-row movable cell (whatever its obstruction flag)");
    bool meetsFixed = ob2 && r.minX < fx + fw && fx < r.maxX && r.minY == fr * RH;
    VASSERT(!meetsFixed, "no row segment of detailed placement runs through a fixed obstruction");
    if (r.minY == qr * RH && r.minX <= q && q < r.maxX) inSeg = true;
  }
  bool qFree = q >= 0 && q < rw && !((qr == yr || qr == yr + 1) && q >= x0 && q < x0 + w0) && !(ob2 && qr == fr && q >= fx && q < fx + fw);
  VASSERT(inSeg == qFree, "a column belongs to a segment exactly if it is in a row and clear of the cells that are not optimised");
  __verif_observe((int)rs.size());
  __verif_cover("end");
}
