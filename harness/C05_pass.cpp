// H05P: one optimiser pass primitive of DetailedPlacer from an arbitrary legal placement: stays legal (C02), never increases the
// incremental value (C05), and the incremental value equals the real wirelength of the exported placement (C05/C09).
#include "all_src.h"
#include "legal.h"
using namespace coloquinte;
#ifndef NC
#define NC 3
#endif
#ifndef XCHOICES
#define XCHOICES 2
#endif
#ifndef OFFCHOICES
#define OFFCHOICES 1
#endif
#ifndef XSYM
#define XSYM 1
#endif
extern "C" void harness() {
  const int RH = 10;
  Circuit c(NC);
  int rw = __verif_nondet_int(12, 40);
  CellOrientation o1 = __verif_choice(2) ? CellOrientation::FS : CellOrientation::N;
  std::vector<Row> rows; rows.push_back(Row(0, rw, 0, RH, CellOrientation::N)); rows.push_back(Row(0, rw, RH, 2 * RH, o1));
  c.setRows(rows);
  std::vector<int> w, h(NC, RH), x, y; std::vector<CellOrientation> orient; std::vector<CellRowPolarity> pol;
  int crow[NC];
  for (int i = 0; i < NC; ++i) {
    int wi = (i == 1) ? 6 : 3;
    crow[i] = (i == 0) ? __verif_choice(2) : (i - 1) % 2;
    int xi = (i < XSYM) ? __verif_nondet_int(0, 40) : __verif_choice(XCHOICES) * 9;
    int pi = (i == 0) ? __verif_choice(POLCHOICES) : 0;     // 0 ANY, 1 SAME
    __verif_assume(xi + wi <= rw);
    for (int j = 0; j < i; ++j) if (crow[j] == crow[i]) { __verif_assume(xi + wi <= x[j] || x[j] + w[j] <= xi); }
    w.push_back(wi); x.push_back(xi); y.push_back(crow[i] * RH); pol.push_back((CellRowPolarity)pi);
    orient.push_back(pi == 1 ? rows[crow[i]].orientation : CellOrientation::N);
  }
  c.setCellWidth(w); c.setCellHeight(h); c.setCellX(x); c.setCellY(y); c.setCellOrientation(orient); c.setCellRowPolarity(pol);
  int offs = __verif_choice(OFFCHOICES);
  c.addNet({0, 1, 1}, {offs ? 3 : 0, 1, 5}, {offs ? 8 : 2, 5, 2});   // cell 1 (width 6) appears twice, with pins at both ends (repeated cells)
#if NNETS > 1
  c.addNet({1, 2, 0}, {2, offs ? 0 : 3, 1}, {4, 1, offs ? 9 : 0});
#endif
  ColoquinteParameters p(1);
  DetailedPlacer pl(c, p);
  pl.check();
  long long before = pl.value();
  VASSERT(before == c.hpwl(), "initial incremental value equals the wirelength of the circuit");
  __verif_cover("placer built");
  int prim = __verif_choice(4);
  bool threw = false;
  try {
    if (prim == 0) pl.runSwapsOneRow(__verif_choice(2), 2);
    else if (prim == 1) pl.runSwapsTwoRowsAmplify(0, 1, 2);
    else if (prim == 2) pl.runInsertsOneRow(__verif_choice(2), 2);
    else pl.runInsertsTwoRows(__verif_choice(2) ? 1 : 0, 0 + (prim == 3 ? 1 : 0), 2);
    pl.check();
  } catch (const std::runtime_error&) { threw = true; }
  VASSERT(!threw, "the pass succeeds and the placer's own check() passes");
  long long after = pl.value();
  VASSERT(after <= before, "a pass never increases the optimised wirelength");
  pl.exportPlacement(c);
  vlegal::assertLegal(c, orient);
  long long real = c.hpwl();
  bool orientChanged = false;
  for (int i = 0; i < NC; ++i) if (c.orientation(i) != orient[i]) orientChanged = true;
  if (orientChanged) VASSERT(real <= before, "the real wirelength is not worse after a pass that changed the orientation of a polarised cell (pin offsets are frozen in the incremental model)");
  else VASSERT(real <= before, "the real wirelength of the exported placement is not worse than before the pass");
  if (!orientChanged) VASSERT(real == after, "the incremental value equals the real wirelength of the exported placement");
  __verif_observe(after); __verif_observe(real);
  __verif_cover("end");
}
