// C19: invalid inputs are refused with a catchable error, before any placement work and without UB.
#include "all_src.h"
using namespace coloquinte;
static Circuit makeCircuit() {
  Circuit c(2);
  c.setCellWidth({4, 6}); c.setCellHeight({10, 10}); c.setCellX({3, 20}); c.setCellY({0, 10});
  std::vector<Row> rows; rows.push_back(Row(0, 40, 0, 10, CellOrientation::N)); rows.push_back(Row(0, 40, 10, 20, CellOrientation::FS));
  c.setRows(rows);
  c.addNet({0, 1}, {1, 2}, {3, 4});
  return c;
}
#if defined(H19A)
extern "C" void harness() {
  int mode = __verif_choice(2);
  if (mode == 0) {
    int effort = 1 + __verif_choice(9);
    bool threw = false;
    try { ColoquinteParameters p(effort); p.check(); __verif_observe(p.detailed.nbPasses); __verif_observe(p.detailed.localSearchNbNeighbours); __verif_observe(p.global.roughLegalization.squareReoptSize); }
    catch (const std::runtime_error&) { threw = true; }
    VASSERT(!threw, "every effort from 1 to 9 yields parameters that pass the check");
  } else {
    int effort = __verif_nondet_int(-2147483647 - 1, 2147483647);
    __verif_assume(effort < 1 || effort > 9);
    bool threw = false;
    try { ColoquinteParameters p(effort); } catch (const std::runtime_error&) { threw = true; }
    VASSERT(threw, "an effort outside 1..9 is refused with an exception");
  }
  __verif_cover("end");
}
#elif defined(H19B)
extern "C" void harness() {
  Circuit c = makeCircuit();
  int which = __verif_choice(10);
  int n = __verif_choice(5);            // wrong length: anything but 2
  if (n == 2) return;
  __verif_protect(&c, sizeof(c));
  bool threw = false;
  try {
    switch (which) {
      case 0: c.setCellX(std::vector<int>(n, 1)); break;
      case 1: c.setCellY(std::vector<int>(n, 1)); break;
      case 2: c.setCellWidth(std::vector<int>(n, 1)); break;
      case 3: c.setCellHeight(std::vector<int>(n, 1)); break;
      case 4: c.setCellIsFixed(std::vector<bool>(n, true)); break;
      case 5: c.setCellIsObstruction(std::vector<bool>(n, false)); break;
      case 6: c.setCellOrientation(std::vector<CellOrientation>(n, CellOrientation::S)); break;
      case 7: c.setCellRowPolarity(std::vector<CellRowPolarity>(n, CellRowPolarity::SAME)); break;
      case 8: c.setSolution(PlacementSolution(n)); break;
      default: if (n == 1) return; c.setNetWeights(std::vector<float>(n, 2.0f)); break;   // 1 net: length 1 is valid
    }
  } catch (const std::runtime_error&) { threw = true; }
  __verif_unprotect(&c, sizeof(c));
  VASSERT(threw, "a vector of the wrong length is refused with an exception");
  __verif_cover("end");
}
#elif defined(H19C)
extern "C" void harness() {
  Circuit c = makeCircuit();
  int mode = __verif_choice(4);
  bool threw = false;
  if (mode == 3) {
    // arbitrary net limits for two nets over 2 or 3 pins: whatever is accepted is a well-formed netlist
    int l0 = __verif_nondet_int(-2, 5), l1 = __verif_nondet_int(-2, 5), l2 = __verif_nondet_int(-2, 5);
    int n = 2 + __verif_choice(2);
    std::vector<int> cells = {0, 1}, xo = {0, 0}, yo = {0, 0};
    if (n == 3) { cells.push_back(0); xo.push_back(1); yo.push_back(2); }
    try { c.setNets({l0, l1, l2}, cells, xo, yo); } catch (const std::runtime_error&) { threw = true; }
    if (!threw) VASSERT(l0 == 0 && l0 <= l1 && l1 <= l2 && l2 == n, "setNets accepts only net limits that start at 0, do not decrease and end at the number of pins");
  } else if (mode == 0) {
    int k = __verif_nondet_int(-2147483647 - 1, 2147483647);
    __verif_assume(k < 0 || k >= 2);
    try { c.addNet({0, k}, {0, 0}, {0, 0}); } catch (const std::runtime_error&) { threw = true; }
    VASSERT(threw, "addNet refuses a pin on a non-existent cell");
  } else if (mode == 1) {
    int k = __verif_nondet_int(-2147483647 - 1, 2147483647);
    __verif_assume(k < 0 || k >= 2);
    try { c.setNets({0, 2}, {1, k}, {0, 0}, {0, 0}); } catch (const std::runtime_error&) { threw = true; }
    VASSERT(threw, "setNets refuses a pin on a non-existent cell");
  } else {
    int bad = __verif_choice(4);
    std::vector<int> limits = {0, 2}, cells = {0, 1}, xo = {0, 0}, yo = {0, 0}; std::vector<float> wts = {1.0f};
    if (bad == 0) cells.push_back(1); else if (bad == 1) xo.pop_back(); else if (bad == 2) yo.push_back(3); else wts.push_back(1.0f);
    try { c.setNets(limits, cells, xo, yo, wts); } catch (const std::runtime_error&) { threw = true; }
    VASSERT(threw, "setNets refuses inconsistent lengths with an exception");
  }
  c.check();
  long long wl = c.hpwl();   // the circuit is still usable
  __verif_observe(wl);
  __verif_cover("end");
}
#elif defined(H19E)
// H19E: arbitrary (symbolic) window parameters of the rough legalization: whatever RoughLegalizationParameters::check() accepts
// lies inside the documented ranges and gives every reoptimisation pass a positive stride (size - overlap >= 1 when the pass is
// enabled), so that the window loops `i += size - overlap` of DensityLegalizer terminate; and what it refuses is refused by an
// exception, nothing else.
extern "C" void harness() {
  RoughLegalizationParameters rp(3);
  int ls = __verif_nondet_int(-3, 70), lo = __verif_nondet_int(-3, 70), ds = __verif_nondet_int(-3, 70), dov = __verif_nondet_int(-3, 70), ss = __verif_nondet_int(-3, 70), so = __verif_nondet_int(-3, 70);
  rp.lineReoptSize = ls; rp.lineReoptOverlap = lo; rp.diagReoptSize = ds; rp.diagReoptOverlap = dov; rp.squareReoptSize = ss; rp.squareReoptOverlap = so;
  bool threw = false;
  try { rp.check(); } catch (const std::runtime_error&) { threw = true; }
  if (!threw) {
    VASSERT(ls >= 1 && ds >= 1 && ss >= 1 && lo >= 1 && dov >= 1 && so >= 1, "accepted sizes and overlaps are at least 1");
    VASSERT(ls <= 64 && ds <= 64 && ss <= 8, "accepted window sizes are small");
    VASSERT(ls <= 1 || ls - lo >= 1, "an enabled line pass advances (overlap smaller than size)");
    VASSERT(ds <= 1 || ds - dov >= 1, "an enabled diagonal pass advances (overlap smaller than size)");
    VASSERT(ss <= 1 || ss - so >= 1, "an enabled square pass advances (overlap smaller than size)");
  } else {
    // the converse for the documented overlap rule: a set that respects every documented range is not refused
    bool ok = ls >= 2 && ds >= 2 && ss >= 2 && ls <= 64 && ds <= 64 && ss <= 8 && lo >= 1 && dov >= 1 && so >= 1 && lo < ls && dov < ds && so < ss;
    VASSERT(!ok, "a window parameter set inside every documented range is accepted");
  }
  __verif_cover("end");
}
#else
// H19D: a rejected parameter set leaves the circuit unmodified (public state), whatever the stage
extern "C" void harness() {
  Circuit c = makeCircuit();
  ColoquinteParameters p(3);
  int field = __verif_choice(8);
  switch (field) {
    case 0: p.legalization.orderingWidth = 2.5; break;
    case 1: p.legalization.orderingY = -0.5; break;
    case 2: p.legalization.costModel = LegalizationModel::L2; break;
    case 3: p.detailed.nbPasses = -1; break;
    case 4: p.detailed.shiftNbRows = 0; break;
    case 5: p.global.maxNbSteps = -1; break;
    case 6: p.global.roughLegalization.binSize = 0.5; break;
    default: p.global.continuousModel.approximationDistance = 1.0e-9; break;
  }
  int stage = __verif_choice(3);
  std::vector<int> bx = c.cellX(), by = c.cellY(), bw = c.cellWidth(); std::vector<CellOrientation> bo = c.cellOrientation();
  // everything but the internal bookkeeping flags is protected
  __verif_protect(&c, (unsigned long)((char*)&c.isInUse_ - (char*)&c));
  bool threw = false;
  try {
    if (stage == 0) c.legalize(p); else if (stage == 1) c.placeDetailed(p); else c.placeGlobal(p);
  } catch (const std::runtime_error&) { threw = true; }
  __verif_unprotect(&c, (unsigned long)((char*)&c.isInUse_ - (char*)&c));
  VASSERT(threw, "a parameter set rejected by the check is refused with an exception");
  VASSERT(c.cellX() == bx && c.cellY() == by && c.cellOrientation() == bo && c.cellWidth() == bw, "a rejected parameter set leaves the circuit unmodified");
  __verif_cover("end");
}
#endif
