// H02E: Circuit::placeDetailed end to end with a callback that evaluates legality (C02/C04), wirelength monotonicity (C05)
// and the frame condition (C03) at every exposed state.
#include "all_src.h"
#include "legal.h"
using namespace coloquinte;
#ifndef NC
#define NC 3
#endif
#ifndef YCELLS
#define YCELLS NC
#endif
struct Ctx { Circuit* c; std::vector<CellOrientation>* orig; int calls; long long lastWl; bool wlOk; std::vector<int> tx, ty; bool tallOk; };
extern "C" void harness() {
  const int RH = 10;
  Circuit c(NC);
  std::vector<int> w, h, x, y; std::vector<CellOrientation> orient; std::vector<CellRowPolarity> pol;
  for (int i = 0; i < NC; ++i) {
    int tall = (i == NC - 1) ? __verif_choice(TALLCHOICES) : 0;      // last cell may be a 2-row cell (not optimised)
    int wi = (i == 1) ? 7 : 3;
    int xi = __verif_nondet_int(-20, 60);
    int yi = (i < YCELLS) ? __verif_choice(2) * RH : (i % 2) * RH;
    int pi = (i == 0) ? __verif_choice(POLCHOICES) : 0;
    int oi = (pi == 0 && i == 1) ? __verif_choice(ORICHOICES) : 0;
    bool turn = (oi == 2 || oi == 3 || oi == 6 || oi == 7);
    int hh = tall ? 2 * RH : RH;
    // stored size such that the PLACED size is wi x hh
    w.push_back(turn ? hh : wi); h.push_back(turn ? wi : hh); x.push_back(xi); y.push_back(yi);
    pol.push_back((CellRowPolarity)pi); orient.push_back((CellOrientation)oi);
  }
  c.setCellWidth(w); c.setCellHeight(h); c.setCellX(x); c.setCellY(y); c.setCellOrientation(orient); c.setCellRowPolarity(pol);
  int rw = __verif_nondet_int(12, 40);
  std::vector<Row> rows; rows.push_back(Row(0, rw, 0, RH, CellOrientation::N)); rows.push_back(Row(0, rw, RH, 2 * RH, __verif_choice(2) ? CellOrientation::FS : CellOrientation::N));
  c.setRows(rows);
  int nn = 1 + __verif_choice(NNETS);
  for (int n = 0; n < nn; ++n) {
    int a = n % NC, b = (n + 1) % NC;
    int ox = __verif_nondet_int(-4, 12); int oy = __verif_nondet_int(-4, 12);
    c.addNet({a, b}, {ox, 1}, {oy, 2});
  }
  ColoquinteParameters p(1);
  p.detailed.nbPasses = 1; p.detailed.localSearchNbNeighbours = 2; p.detailed.localSearchNbRows = 1;
  p.detailed.shiftMaxNbCells = SHIFTCELLS; p.detailed.shiftNbRows = 2; p.detailed.reorderingMaxNbCells = REORDERCELLS; p.detailed.reorderingNbRows = 1;
  std::vector<int> cw = c.cellWidth(), ch = c.cellHeight();
  Ctx ctx; ctx.c = &c; ctx.orig = &orient; ctx.calls = 0; ctx.lastWl = 0; ctx.wlOk = true; ctx.tallOk = true;
  Ctx* cp = &ctx;
  PlacementCallback cb = [cp](PlacementStep) {
    Circuit& cc = *cp->c;
    vlegal::assertLegal(cc, *cp->orig);                       // every exposed state is legal
    long long wl = cc.hpwl();
    if (cp->calls > 0 && wl > cp->lastWl) cp->wlOk = false;    // wirelength at successive Detailed callbacks never increases
    cp->lastWl = wl;
    if (cp->calls == 0) { cp->tx = cc.cellX(); cp->ty = cc.cellY(); }
    else for (int i = 0; i < cc.nbCells(); ++i) if (cc.placedHeight(i) != 10 && (cc.x(i) != cp->tx[i] || cc.y(i) != cp->ty[i])) cp->tallOk = false;
    cp->calls++;
  };
  bool threw = false;
  try { c.placeDetailed(p, cb); } catch (const std::runtime_error&) { threw = true; }
  __verif_cover("placeDetailed ended");
  VASSERT(c.cellWidth() == cw && c.cellHeight() == ch && c.cellRowPolarity() == pol && c.nbNets() == nn && c.nbRows() == 2, "sizes, polarities, nets and rows untouched");
  // (C05 rider.  When cell 0 has SAME/OPPOSITE polarity and the rows differ in orientation, a move between the rows changes its
  //  orientation and hence its pin offsets, which the incremental model does not see: that is the recorded C05 finding, checked
  //  and reported by the C05 harness H05P - not re-raised from this legality harness.)
  bool orientSensitive = (pol[0] == CellRowPolarity::SAME || pol[0] == CellRowPolarity::OPPOSITE) && rows[0].orientation != rows[1].orientation;
  if (!orientSensitive) VASSERT(ctx.wlOk, "wirelength observed at successive Detailed callbacks never increases");
  VASSERT(ctx.tallOk, "cells that are not optimised stay where legalization put them");
  if (ctx.calls > 0) {
    VASSERT(!threw, "detailed placement never fails on a circuit that legalization alone accepts");
  }
  if (!threw) {
    vlegal::assertLegal(c, orient);
    if (!orientSensitive) VASSERT(c.hpwl() <= ctx.lastWl, "the returned placement is not worse than the last exposed one");
    for (int i = 0; i < NC; ++i) if (c.placedHeight(i) != 10) VASSERT(c.x(i) == ctx.tx[i] && c.y(i) == ctx.ty[i], "multi-row cells stay exactly where legalization put them");
    __verif_observe(c.hpwl());
    __verif_cover("placeDetailed returned");
  }
  __verif_cover("end");
}
