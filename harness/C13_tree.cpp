// H13T (and H13S with -DSENDSTEP): one updateTree() of the successive-shortest-path solver from an ARBITRARY optimal intermediate state (3 sinks, 3 sources,
// symbolic costs and allocations, any subset of sinks full; optimality of the state = existence of sink potentials, given as a
// symbolic witness).  Afterwards the chain costs are the true shortest move-chain costs (Bellman conditions) and the parents
// realise them: this is the lemma on which the minimality of the final plan rests, decided for all costs at once.
// H13S: from such a state with its tree, one sendSource(src, bestSink(src), quantity) of a source not sent yet: the books are
// kept (allocations, remaining capacities) and the tree is again the shortest-chain tree of the NEW state (whether or not the
// code chose to recompute it) - so the invariant is inductive over the whole run.
#include "verif_std.h"
#define private public
#include "place_global/transportation.cpp"
#undef private
using namespace coloquinte;
#ifndef NK
#define NK 3
#endif
#ifndef NSRC
#define NSRC 3
#endif
extern "C" void harness() {
  const int nk = NK, ns = NSRC;
  const int cmax = 2147483647 / 4 / nk;
  int full[NK]; int nfull = 0;
  for (int j = 0; j < nk; ++j) { full[j] = __verif_choice(2); nfull += full[j]; }
#ifdef MINFULL
  if (nfull < MINFULL) return;                    // stated bound of this tier: at least MINFULL full sinks (multi-hop chains)
#endif
  if (nfull == nk || nfull == 0) return;          // some sink has room (otherwise nothing is sent any more); some sink is full
  std::vector<std::vector<CostType> > costs;
  std::vector<std::vector<DemandType> > alloc;
  std::vector<DemandType> cap(nk, 0), dem(ns, 0);
  for (int j = 0; j < nk; ++j) {
    std::vector<CostType> row; std::vector<DemandType> arow;
    for (int i = 0; i < ns; ++i) {
      int cji = __verif_nondet_int(0, cmax); row.push_back(cji);
#ifdef SENDSTEP
      // the last source has not been sent yet; what lies in sinks with room does not influence the tree
      int present = (i == ns - 1 || !full[j]) ? 0 : __verif_choice(2);
#else
      int present = __verif_choice(2);             // which sources currently lie in the sink (the amounts do not matter to the tree)
#endif
      DemandType a = present ? 1 + (i + j) % 2 : 0;
      arow.push_back(a); cap[j] += a; dem[i] += a;
    }
    costs.push_back(row); alloc.push_back(arow);
    if (!full[j]) cap[j] += 1;
    if (cap[j] == 0) return;                       // a full sink holds something
  }
  for (int i = 0; i < ns; ++i) if (dem[i] == 0) dem[i] = 1;   // a source not sent yet
  TransportationProblem pb(cap, dem, costs);
  pb.allocations_ = alloc;
  TransportationSuccessiveShortestPath solver(pb);
  for (int j = 0; j < nk; ++j) {
    solver.remainingCapa_[j] = full[j] ? 0 : 1;
    if (full[j]) solver.initQueues(j);
  }
  // the intermediate state is optimal: sink potentials exist (no negative cycle of moves among full sinks)
  long long pi[NK];
  for (int j = 0; j < nk; ++j) pi[j] = __verif_nondet_i64(-4LL * cmax, 4LL * cmax);
  for (int i = 0; i < nk; ++i) if (full[i]) for (int j = 0; j < nk; ++j) if (j != i && full[j]) __verif_assume(solver.movingCost(i, j) + pi[j] - pi[i] >= 0);
  __verif_cover("state built");
  solver.updateTree();
#ifdef SENDSTEP
  {
    const int src = ns - 1;
    long long q = __verif_nondet_i64(1, 2);
    for (int j = 0; j < nk; ++j) if (!full[j]) { long long extra = __verif_nondet_i64(0, 1); solver.remainingCapa_[j] += extra; pb.capacities_[j] += extra; }   // 1 or 2 units left
    pb.demands_[src] = q;
    int sink = solver.bestSink(src);
    long long before[NK];
    for (int j = 0; j < nk; ++j) before[j] = solver.remainingCapa_[j];
    long long sent = solver.sendSource(src, sink, q);
    VASSERT(sent >= 1 && sent <= q, "a positive amount, at most the request, is sent");
    long long got = 0, freed = 0;
    for (int j = 0; j < nk; ++j) {
      long long used = 0;
      for (int i = 0; i < ns; ++i) { VASSERT(pb.allocation(j, i) >= 0, "allocations non-negative"); used += pb.allocation(j, i); }
      VASSERT(used + solver.remainingCapa_[j] == pb.capacity(j), "remaining capacity is capacity minus allocation");
      VASSERT(solver.remainingCapa_[j] >= 0, "no sink over capacity");
      got += pb.allocation(j, src); freed += before[j] - solver.remainingCapa_[j];
      full[j] = solver.remainingCapa_[j] == 0;
    }
    VASSERT(got == sent && freed == sent, "exactly the sent amount was allocated to the source and taken from the free capacity");
    for (int i = 0; i < ns - 1; ++i) { long long tot = 0; for (int j = 0; j < nk; ++j) tot += pb.allocation(j, i); VASSERT(tot == dem[i] || (dem[i] == 1 && tot == 0), "other sources keep their total allocation"); }
    bool anyRoom = false; for (int j = 0; j < nk; ++j) if (!full[j]) anyRoom = true;
    if (!anyRoom) { __verif_cover("end"); return; }
    __verif_cover("sent");
  }
#endif
  for (int i = 0; i < nk; ++i) {
    if (!full[i]) {
      VASSERT(solver.sendingCost_[i] == 0 && solver.sinkParent_[i] == -1, "a sink with room costs nothing and has no parent");
      continue;
    }
    int par = solver.sinkParent_[i];
    VASSERT(par >= 0 && par < nk && par != i, "a full sink has a parent");
    VASSERT(solver.sendingCost_[i] == solver.movingCost(i, par) + solver.sendingCost_[par], "the chain cost is realised through the parent");
    for (int j = 0; j < nk; ++j) if (j != i)
      VASSERT(solver.sendingCost_[i] <= solver.movingCost(i, j) + solver.sendingCost_[j], "no move chain is cheaper than the recorded chain cost (shortest chains)");
  }
  __verif_cover("end");
}
