// H09A: pin offsets / placed size vs DEF orientation semantics (rotation+mirror of the point inside the rotated box).
// H09B: Circuit::hpwl vs from-scratch bounding boxes.  H09C: IncrNetModel topology + update sequences vs from-scratch value.
#include "verif_std.h"
#define private public
#include "coloquinte.cpp"
#include "parameters.cpp"
#include "place_detailed/incr_net_model.cpp"
#undef private
using namespace coloquinte;
#ifndef LIM
#define LIM (1 << 22)
#endif
// Independent oracle: DEF orientation = linear map (a b; c d) applied to the point, then translation moving the image of the
// w x h box to the origin.  N=R0, W=R90, S=R180, E=R270, FN=MY, FS=MX, FW=MX90, FE=MY90.
static void defTransform(int o, long long w, long long h, long long px, long long py, long long& X, long long& Y, long long& W, long long& H) {
  long long a, b, c, d;
  switch (o) {
    case 0: a = 1; b = 0; c = 0; d = 1; break;     // N  (x, y)
    case 1: a = -1; b = 0; c = 0; d = -1; break;   // S  (-x, -y)
    case 2: a = 0; b = -1; c = 1; d = 0; break;    // W  (-y, x)
    case 3: a = 0; b = 1; c = -1; d = 0; break;    // E  (y, -x)
    case 4: a = -1; b = 0; c = 0; d = 1; break;    // FN (-x, y)
    case 5: a = 1; b = 0; c = 0; d = -1; break;    // FS (x, -y)
    case 6: a = 0; b = 1; c = 1; d = 0; break;     // FW (y, x)
    default: a = 0; b = -1; c = -1; d = 0; break;  // FE (-y, -x)
  }
  long long cx[4] = {0, a * w, b * h, a * w + b * h}, cy[4] = {0, c * w, d * h, c * w + d * h};
  long long mnx = cx[0], mxx = cx[0], mny = cy[0], mxy = cy[0];
  for (int k = 1; k < 4; ++k) { if (cx[k] < mnx) mnx = cx[k]; if (cx[k] > mxx) mxx = cx[k]; if (cy[k] < mny) mny = cy[k]; if (cy[k] > mxy) mxy = cy[k]; }
  X = a * px + b * py - mnx; Y = c * px + d * py - mny; W = mxx - mnx; H = mxy - mny;
}
#if defined(H09A)
extern "C" void harness() {
  Circuit c(1);
  int o = __verif_choice(8);
  int w = __verif_nondet_int(0, LIM); int h = __verif_nondet_int(0, LIM);
  int px = __verif_nondet_int(-LIM, LIM); int py = __verif_nondet_int(-LIM, LIM);
  c.setCellWidth({w}); c.setCellHeight({h}); c.setCellOrientation({(CellOrientation)o});
  c.addNet({0}, {px}, {py});
  long long X, Y, W, H; defTransform(o, w, h, px, py, X, Y, W, H);
  VASSERT(c.placedWidth(0) == W && c.placedHeight(0) == H, "placed size follows the orientation");
  VASSERT(c.pinXOffset(0, 0) == X, "pin x offset follows the DEF orientation semantics");
  VASSERT(c.pinYOffset(0, 0) == Y, "pin y offset follows the DEF orientation semantics");
  VASSERT(isTurn((CellOrientation)o) == (W != w || H != h || (w == h && (o == 2 || o == 3 || o == 6 || o == 7))), "isTurn");
  __verif_observe(c.pinXOffset(0, 0)); __verif_observe(c.pinYOffset(0, 0));
  __verif_cover("end");
}
#elif defined(H09B)
#ifndef NN
#define NN 2
#endif
#ifndef NP
#define NP 2
#endif
extern "C" void harness() {
  const int NC = 2;
  Circuit c(NC);
  std::vector<int> w, h, x, y; std::vector<CellOrientation> orient;
  for (int i = 0; i < NC; ++i) {
    int wi = __verif_nondet_int(0, LIM); int hi = __verif_nondet_int(0, LIM); int xi = __verif_nondet_int(-LIM, LIM); int yi = __verif_nondet_int(-LIM, LIM);
    int oi = __verif_nondet_int(0, 7);
    w.push_back(wi); h.push_back(hi); x.push_back(xi); y.push_back(yi); orient.push_back((CellOrientation)oi);
  }
  c.setCellWidth(w); c.setCellHeight(h); c.setCellX(x); c.setCellY(y); c.setCellOrientation(orient);
  int nn = __verif_choice(NN + 1);
  long long expect = 0;
  for (int n = 0; n < nn; ++n) {
    int np = __verif_choice(NP + 1);    // 0 pins: addNet ignores the net
    std::vector<int> cells, xo, yo;
    long long mnx = 0, mxx = 0, mny = 0, mxy = 0;
    for (int p = 0; p < np; ++p) {
      int cell = __verif_choice(NC); int px = __verif_nondet_int(-LIM, LIM); int py = __verif_nondet_int(-LIM, LIM);
      cells.push_back(cell); xo.push_back(px); yo.push_back(py);
      long long X, Y, W, H; defTransform((int)orient[cell], w[cell], h[cell], px, py, X, Y, W, H);
      long long ax = x[cell] + X, ay = y[cell] + Y;
      if (p == 0 || ax < mnx) mnx = ax; if (p == 0 || ax > mxx) mxx = ax;
      if (p == 0 || ay < mny) mny = ay; if (p == 0 || ay > mxy) mxy = ay;
    }
    c.addNet(cells, xo, yo);
    expect += (mxx - mnx) + (mxy - mny);
  }
  long long got = c.hpwl();
  VASSERT(got == expect, "hpwl equals the sum of half-perimeters of the pin bounding boxes");
  __verif_observe(got);
  __verif_cover("end");
}
#else
#ifndef NN
#define NN 2
#endif
#ifndef NP
#define NP 3
#endif
#ifndef NUPD
#define NUPD 2
#endif
extern "C" void harness() {
  const int NC = 3;
  Circuit c(NC);
  std::vector<int> w(NC, 4), h(NC, 4), x, y;
  for (int i = 0; i < NC; ++i) { int xi = __verif_nondet_int(-LIM, LIM); int yi = __verif_nondet_int(-LIM, LIM); x.push_back(xi); y.push_back(yi); }
  c.setCellWidth(w); c.setCellHeight(h); c.setCellX(x); c.setCellY(y);
  int nn = 1 + __verif_choice(NN);
  int pcell[NN][NP], poff[NN][NP], npins[NN];
  for (int n = 0; n < nn; ++n) {
    npins[n] = 1 + __verif_choice(NP);
    std::vector<int> cells, xo, yo;
    for (int p = 0; p < npins[n]; ++p) {
      pcell[n][p] = __verif_choice(NC); poff[n][p] = __verif_nondet_int(-LIM, LIM);
      cells.push_back(pcell[n][p]); xo.push_back(poff[n][p]); yo.push_back(0);
    }
    c.addNet(cells, xo, yo);
  }
  // subset of cells that the model owns (the others act as fixed pins)
  std::vector<int> sub; int local[NC];
  for (int i = 0; i < NC; ++i) { local[i] = -1; if (__verif_choice(2)) { local[i] = (int)sub.size(); sub.push_back(i); } }
  IncrNetModel m = IncrNetModel::xTopology(c, sub);
  m.check();
  long long pos[NC]; for (int i = 0; i < NC; ++i) pos[i] = x[i];
  for (int step = 0; step <= NUPD; ++step) {
    long long expect = 0;
    for (int n = 0; n < nn; ++n) {
      long long mn = 0, mx = 0;
      for (int p = 0; p < npins[n]; ++p) {
        long long a = pos[pcell[n][p]] + poff[n][p];
        if (p == 0 || a < mn) mn = a; if (p == 0 || a > mx) mx = a;
      }
      expect += mx - mn;
    }
    VASSERT(m.value() == expect, "incremental value equals the from-scratch 1-D wirelength");
    __verif_observe(m.value());
    if (step == NUPD || sub.empty()) break;
    int k = __verif_choice((int)sub.size()); int np = __verif_nondet_int(-LIM, LIM);
    m.updateCellPos(k, np); pos[sub[k]] = np;
  }
  m.check();
  __verif_cover("end");
}
#endif
