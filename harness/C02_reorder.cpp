// H02R / H05R: the row reordering pass (DetailedPlacer::runReorderingOnCells -> RowReordering) on a window of four cells over
// two stacked rows, from a legal placement with symbolic positions and a symbolic terminal.  Afterwards the placement is legal
// (rows, no overlap, polarity/orientation: C02, C04), the call did not fail (C02), the wirelength did not increase and the
// incremental value equals the real one (C05).
#include "all_src.h"
#include "legal.h"
using namespace coloquinte;
extern "C" void harness() {
  const int RH = 10;
  int startOdd = __verif_choice(2);      // the window lies on rows 0,1 or on rows 1,2 (row orientations N, FS, N)
  int extra = __verif_choice(2);         // 1: a boundary cell (not in the window) ends each of the two rows
  int polar = __verif_choice(2);         // 1: cell 0 has the restrictive polarity its start row allows (NW on N rows, SE on FS rows)
  const int g = 0, off = 3;              // window cells of a row abut; the spare room of a region is at its end
  const int T = 6;                       // cells 0,1 (lower window row) 2,3 (upper window row) 4,5 boundary cells, 6 fixed terminal
  Circuit c(7);
  int rw = __verif_nondet_int(24, 48);
  std::vector<Row> rows;
  rows.push_back(Row(0, rw, 0, RH, CellOrientation::N)); rows.push_back(Row(0, rw, RH, 2 * RH, CellOrientation::FS)); rows.push_back(Row(0, rw, 2 * RH, 3 * RH, CellOrientation::N));
  c.setRows(rows);
  int r0 = startOdd, r1 = startOdd + 1;
  int w0 = 3, w1 = 5, w2 = 2, w3 = 4, wb = 2;
  int s0 = __verif_nondet_int(0, 6), s1 = __verif_nondet_int(0, 6);
  int x0 = s0, x1 = s0 + w0 + g, x2 = s1, x3 = s1 + w2 + g;
  int x4 = x1 + w1 + 2, x5 = x3 + w3 + 4;        // some spare room in both regions
  __verif_assume(x4 + wb <= rw && x5 + wb <= rw);
  int fx = __verif_nondet_int(-30, 90), fy = __verif_nondet_int(-30, 60);
  // without the boundary cells, cells 4 and 5 are parked as fixed non-obstructing cells outside the rows
  c.setCellWidth({w0, w1, w2, w3, wb, wb, 4}); c.setCellHeight({RH, RH, RH, RH, RH, RH, 4});
  c.setCellX({x0, x1, x2, x3, extra ? x4 : -100, extra ? x5 : -100, fx});
  c.setCellY({r0 * RH, r0 * RH, r1 * RH, r1 * RH, extra ? r0 * RH : -100, extra ? r1 * RH : -100, fy});
  c.setCellIsFixed({false, false, false, false, !extra, !extra, true});
  c.setCellIsObstruction({true, true, true, true, extra != 0, extra != 0, false});
  std::vector<CellRowPolarity> pol(7, CellRowPolarity::ANY);
  std::vector<CellOrientation> ori(7, CellOrientation::N);
  if (polar) pol[0] = (r0 == 1) ? CellRowPolarity::SE : CellRowPolarity::NW;
  ori[0] = (CellOrientation)vlegal::prescribed(pol[0], rows[r0].orientation, CellOrientation::N);
  c.setCellRowPolarity(pol); c.setCellOrientation(ori);
  c.addNet({0, T}, {1, off}, {2, 1});
  c.addNet({2, T}, {0, off}, {3, 0});
  c.addNet({1, 3}, {2, 1}, {1, 2});
  c.addNet({0, 3, T}, {0, 2, 1}, {0, 0, 0});
  vlegal::assertLegal(c, ori);           // the harness's own starting placement is legal
  ColoquinteParameters p(1);
  DetailedPlacer pl(c, p);
  pl.check();
  long long before = pl.value();
  VASSERT(before == c.hpwl(), "initial incremental value equals the circuit wirelength");
  __verif_cover("placer built");
  bool threw = false;
  try { pl.runReorderingOnCells({0, 1, 2, 3}); pl.placement_.check(); pl.check(); } catch (const std::runtime_error&) { threw = true; }
  VASSERT(!threw, "the reordering pass does not fail and the reordered placement passes the repository's own checks");
  long long after = pl.value();
  VASSERT(after <= before, "the reordering pass never increases the wirelength");
  pl.exportPlacement(c);
  VASSERT(c.hpwl() == after, "incremental value equals the real wirelength after the pass");
  vlegal::assertLegal(c, ori);
  if (extra) VASSERT(c.x(4) == x4 && c.y(4) == r0 * RH && c.x(5) == x5 && c.y(5) == r1 * RH, "cells outside the window do not move");
  for (int i = 0; i < 4; ++i) { __verif_observe(c.x(i)); __verif_observe(c.y(i)); }
  __verif_cover("end");
}
