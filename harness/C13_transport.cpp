// H13: TransportationProblem::solve — feasible plan, minimal against an arbitrary competitor plan; toAssignment = arg-max allocation.
#include "verif_std.h"
#define private public
#include "place_global/transportation.cpp"
#undef private
using namespace coloquinte;
#ifndef NS
#define NS 2   // sources
#endif
#ifndef NK
#define NK 2   // sinks
#endif
#ifndef QMAX
#define QMAX 2
#endif
#ifdef ASSIGNONLY
// H13Q: toAssignment on an ARBITRARY allocation matrix (macro-sized shares up to 2^40: cell areas are 64-bit quantities)
extern "C" void harness() {
  int ns = 1 + __verif_choice(2), nk = 1 + __verif_choice(3);
  std::vector<DemandType> cap(nk, 1), dem(ns, 1);
  std::vector<std::vector<CostType> > costs(nk, std::vector<CostType>(ns, 0));
  TransportationProblem pb(cap, dem, costs);
  for (int j = 0; j < nk; ++j) for (int i = 0; i < ns; ++i) { long long a = __verif_nondet_i64(0, 1LL << 40); pb.allocations_[j][i] = a; }
  __verif_cover("precondition holds");
  std::vector<int> as = pb.toAssignment();
  VASSERT((int)as.size() == ns, "assignment has one entry per source");
  for (int i = 0; i < ns; ++i) {
    VASSERT(as[i] >= 0 && as[i] < nk, "assigned sink in range");
    for (int j = 0; j < nk; ++j) VASSERT(pb.allocations_[as[i]][i] >= pb.allocations_[j][i], "assigned sink receives most of the source");
  }
  __verif_cover("end");
}
#else
extern "C" void harness() {
#ifdef SHAPES33
  // 3 sources x 3 sinks with the quantities of a few tight shapes (two sinks fill up while the third has room), costs symbolic
  static const int CAPS[4][3] = {{2, 4, 3}, {1, 1, 2}, {2, 2, 2}, {3, 1, 2}};
  static const int DEMS[4][3] = {{2, 5, 2}, {2, 1, 1}, {3, 2, 1}, {2, 2, 2}};
  int shape = __verif_choice(4);
  int ns = 3, nk = 3;
#else
  int ns = 1 + __verif_choice(NS), nk = 1 + __verif_choice(NK);
#endif
  std::vector<DemandType> cap, dem;
  std::vector<std::vector<CostType> > costs;
  DemandType tc = 0, td = 0;
  const int cmax = 2147483647 / 4 / nk;   // the range produced by the documented fixed-point scaling
  for (int j = 0; j < nk; ++j) {
#ifdef FAMILY_B
    cap.push_back(__verif_nondet_i64(1, QLIM));
#elif defined(SHAPES33)
    cap.push_back(CAPS[shape][j]);
#else
    cap.push_back(1 + __verif_choice(QMAX));
#endif
    tc += cap[j];
  }
  for (int i = 0; i < ns; ++i) {
#ifdef FAMILY_B
    dem.push_back(__verif_nondet_i64(1, QLIM));
#elif defined(SHAPES33)
    dem.push_back(DEMS[shape][i]);
#else
    dem.push_back(1 + __verif_choice(QMAX));
#endif
    td += dem[i];
  }
  for (int j = 0; j < nk; ++j) {
    std::vector<CostType> row;
    for (int i = 0; i < ns; ++i) {
#ifdef FAMILY_B
      row.push_back(__verif_choice(CRANGE));
#else
      row.push_back(__verif_nondet_int(0, cmax));
#endif
    }
    costs.push_back(row);
  }
  TransportationProblem pb(cap, dem, costs);
  int normalise = __verif_choice(2);
  if (normalise) {
    pb.increaseCapacity();
    tc = 0;
    for (int j = 0; j < nk; ++j) { cap[j] = pb.capacity(j); tc += cap[j]; }
    VASSERT(tc >= td, "increaseCapacity makes total capacity cover total demand");
  }
  __verif_assume(td <= tc);
  __verif_cover("precondition holds");
  bool threw = false;
  try { pb.solve(); } catch (const std::runtime_error&) { threw = true; }
  VASSERT(!threw, "solve() does not throw on a feasible instance");
  long long cx = 0;
  for (int i = 0; i < ns; ++i) {
    long long got = 0;
    for (int j = 0; j < nk; ++j) {
      long long a = pb.allocation(j, i);
      VASSERT(a >= 0, "allocations non-negative");
      got += a;
      cx += a * costs[j][i];
    }
    VASSERT(got == dem[i], "every source fully allocated");
  }
  for (int j = 0; j < nk; ++j) {
    long long used = 0;
    for (int i = 0; i < ns; ++i) used += pb.allocation(j, i);
    VASSERT(used <= cap[j], "no sink over capacity");
  }
  __verif_observe(cx);   // tie-independent (the plan itself depends on the unspecified order of equal priority-queue elements)
  // arbitrary integral competitor plan
  long long cy = 0, yu[NK] = {0};
  for (int i = 0; i < ns; ++i) {
    long long rem = dem[i];
    for (int j = 0; j < nk; ++j) {
#ifdef FAMILY_B
      long long y = (j + 1 == nk) ? rem : __verif_nondet_i64(0, QLIM);
      __verif_assume(y >= 0 && y <= rem);
      cy += y * costs[j][i];
#else
      long long y = (j + 1 == nk) ? rem : (long long)__verif_nondet_int(0, QMAX);
      __verif_assume(y >= 0 && y <= rem);
      for (int k = 1; k <= QMAX; ++k) cy += (y >= k) ? costs[j][i] : 0;
#endif
      rem -= y; yu[j] += y;
    }
  }
  for (int j = 0; j < nk; ++j) __verif_assume(yu[j] <= cap[j]);
  VASSERT(cx <= cy, "plan cost minimal against arbitrary competitor plan");
  // assignment: each source goes to a sink receiving most of it
  std::vector<int> as = pb.toAssignment();
  VASSERT((int)as.size() == ns, "assignment has one entry per source");
  for (int i = 0; i < ns; ++i) {
    VASSERT(as[i] >= 0 && as[i] < nk, "assigned sink in range");
    for (int j = 0; j < nk; ++j) VASSERT(pb.allocation(as[i], i) >= pb.allocation(j, i), "assigned sink receives most of the source");
  }
  __verif_cover("end");
}
#endif
