// Legality predicate of a placement, stated at the public API (shared by C01/C02/C04 harnesses).
#pragma once
#include "verif.h"
namespace vlegal {
using namespace coloquinte;
inline bool isTurned(CellOrientation o) { return o == CellOrientation::W || o == CellOrientation::E || o == CellOrientation::FW || o == CellOrientation::FE; }
// orientation prescribed by the documented polarity table (independent of parameters.cpp)
inline int prescribed(CellRowPolarity pol, CellOrientation row, CellOrientation cur) {
  int r = (int)row;
  // opposite: N<->FS, S<->FN, E<->FW, W<->FE
  static const int opp[8] = {5, 4, 7, 6, 1, 0, 3, 2};
  switch (pol) {
    case CellRowPolarity::ANY: return (int)cur;
    case CellRowPolarity::SAME: return r;
    case CellRowPolarity::OPPOSITE: return r < 8 ? opp[r] : 8;
    case CellRowPolarity::NW: return (r == 0 || r == 4 || r == 2 || r == 6) ? r : 8;
    default: return (r == 1 || r == 5 || r == 3 || r == 7) ? r : 8;
  }
}
// asserts full legality of the movable cells of c; origOrient = orientation before placement (for polarity ANY)
inline void assertLegal(const Circuit& c, const std::vector<CellOrientation>& origOrient, bool checkOrientation = true) {
  std::vector<Row> free = c.computeRows();
  int rh = c.rowHeight();
  for (int i = 0; i < c.nbCells(); ++i) {
    if (c.isFixed(i)) continue;
    int x = c.x(i), y = c.y(i), w = c.placedWidth(i), h = c.placedHeight(i);
    VASSERT(h % rh == 0 && h > 0, "placed height is a positive multiple of the row height");
    int strips = h / rh;
    for (int k = 0; k < strips; ++k) {
      bool inside = false;
      for (size_t r = 0; r < free.size(); ++r)
        if (free[r].minY == y + k * rh && free[r].minX <= x && x + w <= free[r].maxX) inside = true;
      VASSERT(inside, "every row-high strip of a movable cell lies inside one free row segment");
    }
    for (int j = 0; j < i; ++j) {
      if (c.isFixed(j)) continue;
      Rectangle a = c.placement(i), b = c.placement(j);
      VASSERT(!(a.minX < b.maxX && b.minX < a.maxX && a.minY < b.maxY && b.minY < a.maxY), "no two movable cells overlap");
    }
    if (checkOrientation) {
      // row the bottom edge sits on
      CellOrientation ro = CellOrientation::INVALID;
      for (size_t r = 0; r < c.rows().size(); ++r) if (c.rows()[r].minY == y) ro = c.rows()[r].orientation;
      int want = prescribed(c.cellRowPolarity()[i], ro, origOrient[i]);
      VASSERT((int)c.orientation(i) != (int)CellOrientation::INVALID && (int)c.orientation(i) != (int)CellOrientation::UNKNOWN, "no INVALID orientation is produced");
      VASSERT((int)c.orientation(i) == want, "orientation is the one the polarity prescribes for the row (unchanged for ANY)");
    }
  }
}
}
