// H12: RowLegalizer — order preserving, optimal vs arbitrary competitor, exact costs, pure queries.
#include <vector>
#include <cassert>
#include <stdexcept>
#define private public
#include "place_detailed/row_legalizer.cpp"
#undef private
#include "verif.h"
using namespace coloquinte;
#ifndef LIM
#define LIM (1 << 22)
#endif
#ifndef WMAX
#define WMAX 3
#endif
#ifndef WSCALE
#define WSCALE 1   // widths are multiples of WSCALE (wide cells: width x distance products beyond 2^31)
#endif
#ifndef NMAX
#define NMAX 3
#endif
extern "C" void harness() {
  int n = 1 + __verif_choice(NMAX);
  int b = __verif_nondet_int(-LIM, LIM), e = __verif_nondet_int(-LIM, LIM);
  __verif_assume(b <= e);
  RowLegalizer r(b, e);
  int w[NMAX], t[NMAX], y[NMAX];
  long long costs = 0;
  for (int i = 0; i < n; ++i) {
#ifdef WSYM
    w[i] = __verif_nondet_int(1, WMAX);
#else
    w[i] = (1 + __verif_choice(WMAX)) * WSCALE;
#endif
    t[i] = __verif_nondet_int(-2 * LIM, 2 * LIM);
    __verif_assume(r.remainingSpace() >= w[i]);
    long long q = r.getCost(w[i], t[i]);
    long long c = r.push(w[i], t[i]);
    VASSERT(q == c, "predicted cost equals performed cost");
    costs += c;
    __verif_observe(c);
  }
  __verif_cover("all pushed");
  std::vector<int> x = r.getPlacement();
  VASSERT((int)x.size() == n, "one position per cell");
  int prev = b; long long cx = 0, cy = 0;
  for (int i = 0; i < n; ++i) {
    VASSERT(x[i] >= prev, "order / no overlap / inside segment (left)");
    prev = x[i] + w[i];
    __verif_observe(x[i]);
    long long d = x[i] - t[i]; if (d < 0) d = -d;
    cx += w[i] * d;
  }
  VASSERT(prev <= e, "inside segment (right)");
  // arbitrary competitor placement y
  prev = b;
  for (int i = 0; i < n; ++i) {
    y[i] = __verif_nondet_int(-LIM, LIM);
    __verif_assume(y[i] >= prev && y[i] <= e); prev = y[i] + w[i];
    long long d = y[i] - t[i]; if (d < 0) d = -d;
    cy += w[i] * d;
  }
  __verif_assume(prev <= e);
  VASSERT(cx <= cy, "optimal against arbitrary competitor");
  VASSERT(costs == cx, "reported costs sum to the optimum");
}
