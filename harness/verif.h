// Harness API.  The same harness source is (a) compiled to LLVM IR against the stub
// headers and executed symbolically by irsx, where these functions are engine
// built-ins, and (b) compiled natively against the real libraries and linked with
// native_rt.cpp, where they read a replay file.
#pragma once
#ifdef __cplusplus
extern "C" {
#endif
int __verif_nondet_int(int lo, int hi);              // arbitrary value in [lo, hi]
long long __verif_nondet_i64(long long lo, long long hi);
float __verif_nondet_float(float lo, float hi);      // arbitrary finite float in [lo, hi]
double __verif_nondet_double(double lo, double hi);
int __verif_choice(int n);                           // value in [0, n): enumerated by the driver (one job per value)
void __verif_assume(bool);
void __verif_assert(bool, const char* what);
void __verif_assert_env(bool, const char* what);   // claim about a value handed to an environment model (no-op natively: the real library is linked there)
void __verif_cover(const char* label);
void __verif_observe(long long v);
void __verif_observe_f(double v);
void __verif_protect(const void* p, unsigned long n);   // region becomes read-only: any store is a violation
void __verif_unprotect(const void* p, unsigned long n);
void __verif_note(const char* label);
void __verif_havoc_int_range(long long lo, long long hi); // FP-havoc runs: float->int conversions from here on yield values in [lo,hi] (no-op natively)                // trace marker (both worlds)
#ifdef __cplusplus
}
#endif
#define VASSERT(c, m) __verif_assert((c), m)
