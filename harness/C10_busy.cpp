// C10: busy-circuit protocol and exception safety of Circuit::legalize / placeDetailed (placeGlobal: parameter rejection only).
#include "all_src.h"
using namespace coloquinte;
struct Ctx { Circuit* c; int calls; int throwAt; int setter; bool setterRefused; bool setterRan; int excKind; };
struct UserFailure { int code; };   // an exception type outside the std::exception hierarchy ("by any exception")
static bool callSetter(Circuit& c, int which) {   // returns true if the setter raised an error
  try {
    switch (which) {
      case 0: c.addNet({0, 1}, {0, 0}, {0, 0}); break;
      case 1: c.setNets({0, 2}, {0, 1}, {0, 1}, {1, 0}); break;
      case 2: c.setRows(c.rows()); break;
      case 3: c.setupRows(Rectangle(0, 40, 0, 20), 10); break;
      case 4: c.setCellIsFixed(std::vector<bool>(c.nbCells(), false)); break;
      case 5: c.setCellIsObstruction(std::vector<bool>(c.nbCells(), true)); break;
      default: c.setCellRowPolarity(std::vector<CellRowPolarity>(c.nbCells(), CellRowPolarity::ANY)); break;
    }
  } catch (const std::runtime_error&) { return true; }
  return false;
}
extern "C" void harness() {
  int infeasible = __verif_choice(3);   // 0: feasible, 1: cell 0 cannot be placed, 2: cell 1 cannot be placed (cell 0 can, and moves)
  Circuit c(2);
  int x0 = __verif_nondet_int(-8, 48); int x1 = __verif_nondet_int(-8, 48);
  c.setCellWidth({infeasible == 1 ? 50 : 4, infeasible == 2 ? 50 : 6}); c.setCellHeight({10, 10}); c.setCellX({x0, x1}); c.setCellY({0, 10});
  std::vector<Row> rows; rows.push_back(Row(0, 40, 0, 10, CellOrientation::N)); rows.push_back(Row(0, 40, 10, 20, CellOrientation::FS));
  c.setRows(rows);
  c.addNet({0, 1}, {1, 2}, {3, 4});
  ColoquinteParameters p(1);
  p.detailed.nbPasses = 1; p.detailed.shiftMaxNbCells = 0; p.detailed.reorderingMaxNbCells = 0;
  int stage = __verif_choice(2);
  int scenario = infeasible ? 0 : __verif_choice(3);   // 0: plain, 1: callback throws at some index, 2: rejected parameters
  Ctx ctx; ctx.c = &c; ctx.calls = 0; ctx.throwAt = -1; ctx.setter = __verif_choice(7); ctx.setterRefused = true; ctx.setterRan = false; ctx.excKind = 0;
  if (scenario == 1) ctx.excKind = __verif_choice(2);
  if (scenario == 1) ctx.throwAt = __verif_choice(stage == 0 ? 1 : 2);
  if (scenario == 2) { if (__verif_choice(2)) p.legalization.orderingWidth = 3.0; else p.detailed.shiftNbRows = 0; }
  Ctx* cp = &ctx;
  PlacementCallback cb = [cp](PlacementStep) {
    // while a placement call is in progress every structural modification is refused and changes nothing
    __verif_protect(cp->c, (unsigned long)((char*)&cp->c->isInUse_ - (char*)cp->c));
    bool refused = callSetter(*cp->c, cp->setter);
    __verif_unprotect(cp->c, (unsigned long)((char*)&cp->c->isInUse_ - (char*)cp->c));
    cp->setterRan = true;
    if (!refused) cp->setterRefused = false;
    int k = cp->calls++;
    if (k == cp->throwAt) { if (cp->excKind == 1) throw UserFailure{7}; throw std::runtime_error("callback failure"); }
  };
  std::vector<int> bx = c.cellX(), by = c.cellY(); std::vector<CellOrientation> bo = c.cellOrientation();
  bool threw = false;
  try {
    if (stage == 0) c.legalize(p, cb); else c.placeDetailed(p, cb);
  } catch (const std::runtime_error&) { threw = true; }
  catch (const UserFailure&) { threw = true; }
  __verif_cover("placement call ended");
  VASSERT(ctx.setterRefused, "structural setters are refused while a placement call is in progress");
  bool expectThrow = infeasible || scenario != 0;
  VASSERT(threw == expectThrow, "the call fails exactly in the failing scenarios");
  if (scenario == 0 && !infeasible) VASSERT(ctx.setterRan, "the callback ran");
  if (infeasible || scenario == 2) {
    VASSERT(c.cellX() == bx && c.cellY() == by && c.cellOrientation() == bo, "a failed legalization leaves the placement exactly as it was");
  }
  // once the call has ended, modifications are accepted again and the circuit is consistent
  for (int s = 0; s < 7; ++s) VASSERT(!callSetter(c, s), "structural setters are accepted again after the call ended");
  c.check();
  // and a further placement call works
  bool threw2 = false;
  ColoquinteParameters p2(1); p2.detailed.nbPasses = 0;
  c.setCellWidth({4, 6});
  try { c.legalize(p2); } catch (const std::runtime_error&) { threw2 = true; }
  VASSERT(!threw2, "a further placement call succeeds");
  __verif_cover("end");
}
