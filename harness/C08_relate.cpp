// H08R: the same circuit placed twice by Circuit::placeGlobal - once observed by a read-only callback, once without any - ends on
// the same coordinates.  Floats are uninterpreted values and every float operation (and the linear solver) an uninterpreted
// FUNCTION of its operands ('uf' mode): whatever the float semantics are, a deterministic computation gives both runs the same
// result, so any difference comes from the code doing something else when a callback is present.
#include "all_src.h"
using namespace coloquinte;
static void build(Circuit& c, int fxx, int fxy, bool obsFlag) {
  c.setCellWidth({6, 4, 8}); c.setCellHeight({10, 10, 20}); c.setCellX({12, 70, fxx}); c.setCellY({33, -5, fxy});
  std::vector<bool> fixed = {false, false, true}; c.setCellIsFixed(fixed);
  std::vector<bool> obs = {true, true, obsFlag}; c.setCellIsObstruction(obs);
  c.setCellOrientation({CellOrientation::N, CellOrientation::FS, CellOrientation::S});
  c.setupRows(Rectangle(0, 100, 0, 40), 10);
  c.addNet({0, 1}, {1, 2}, {3, 4}, 1.0f);
  c.addNet({0, 2, 1}, {0, 3, 1}, {5, 2, 0}, 2.0f);
}
extern "C" void harness() {
  int fxx = __verif_nondet_int(-50, 150); int fxy = __verif_nondet_int(-50, 90);
  bool obsFlag = __verif_choice(2) != 0;
  Circuit c1(3), c2(3);
  build(c1, fxx, fxy, obsFlag); build(c2, fxx, fxy, obsFlag);
  ColoquinteParameters p(1);
  p.global.maxNbSteps = 1; p.global.nbInitialSteps = 0;
  p.global.exportBlending = 0.5;        // the returned placement is half way between the last lower- and upper-bound placements
  int calls = 0; int* cp = &calls;
  PlacementCallback cb = [cp](PlacementStep) { (*cp)++; };
  __verif_havoc_int_range(-(1 << 27), 1 << 27);
  bool threw = false;
#ifdef BOTHCB
  try { c1.placeGlobal(p, cb); c2.placeGlobal(p, cb); }
#else
  try { c1.placeGlobal(p, cb); c2.placeGlobal(p); }
#endif
  catch (const std::runtime_error&) { threw = true; }
  __verif_cover("both runs ended");
  VASSERT(!threw, "global placement completes without raising an error");
  VASSERT(calls >= 2, "the callback was called");
  for (int i = 0; i < 2; ++i)
    VASSERT(c1.x(i) == c2.x(i) && c1.y(i) == c2.y(i), "a run observed by a read-only callback ends on the same coordinates as a run without callback");
  __verif_cover("end");
}
