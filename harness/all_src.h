// The whole library in one translation unit (private members reachable by the harness).
#pragma once
#define ALL_SRC_IR_EXTRA {'place_global/transportation_1d.cpp', 'place_detailed/abacus_legalizer.cpp', 'place_detailed/tetris_legalizer.cpp'}
#include "verif_std.h"
#define private public
#define protected public
#include "coloquinte.cpp"
#include "parameters.cpp"
#include "export.cpp"
#include "place_global/transportation.cpp"
// place_global/transportation_1d.cpp is compiled separately and linked at IR level (its header has no include guard)
#include "place_global/density_grid.cpp"
#include "place_global/density_legalizer.cpp"
#include "place_global/net_model.cpp"
#include "place_global/place_global.cpp"
#include "place_detailed/row_legalizer.cpp"
// abacus_legalizer.cpp / tetris_legalizer.cpp: compiled separately, linked at IR level (headers without include guards)
#include "place_detailed/legalizer.cpp"
#include "place_detailed/incr_net_model.cpp"
#include "place_detailed/detailed_placement.cpp"
#include "place_detailed/row_neighbourhood.cpp"
#include "place_detailed/place_detailed.cpp"
#undef private
#undef protected
