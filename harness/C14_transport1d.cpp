// H14: Transportation1d::solve / assign / balanceDemand — valid plan, optimal against an arbitrary competitor plan, rounding memory-safe.
#include "verif_std.h"
#define private public
#define protected public
#include "place_global/transportation_1d.cpp"
#undef private
#undef protected
namespace coloquinte {}
using namespace coloquinte;
#ifndef NS
#define NS 2
#endif
#ifndef NK
#define NK 2
#endif
#ifndef QMAX
#define QMAX 2
#endif
#ifndef SMAX
#define SMAX QMAX
#endif
#ifndef DMIN
#define DMIN 0
#endif
#ifndef PLIM
#define PLIM 100000000
#endif
// FAMILY_A: positions symbolic, quantities enumerated 0..QMAX.  FAMILY_B: quantities symbolic, positions enumerated small.
extern "C" void harness() {
#ifdef SHAPES24
  // 2 sources x 4 sinks with the quantities of a few tight shapes (a source straddles a sink boundary), positions symbolic
  static const int SS[4][2] = {{3, 2}, {2, 2}, {3, 1}, {1, 3}};
  static const int DD[4][4] = {{2, 2, 1, 3}, {1, 1, 1, 1}, {1, 2, 1, 1}, {2, 1, 1, 2}};
  int shape = __verif_choice(4);
  int ns = 2, nk = 4;
#elif defined(ONLYFULL)
  int ns = NS, nk = NK;      // only the largest shape (the smaller ones are covered by another harness)
#else
  int ns = 1 + __verif_choice(NS), nk = 1 + __verif_choice(NK);
#endif
  std::vector<long long> u, v, s, d;
  long long ts = 0, td = 0;
  for (int i = 0; i < ns; ++i) {
#ifdef FAMILY_B
    u.push_back(__verif_choice(PRANGE)); s.push_back(__verif_nondet_i64(0, QLIM));
#else
    u.push_back(__verif_nondet_i64(-PLIM, PLIM));
#ifdef SHAPES24
    s.push_back(SS[shape][i]);
#else
    s.push_back(SMAX == 0 ? 1 : __verif_choice(SMAX + 1));   // SMAX 0: unit supplies
#endif
#endif
    ts += s[i];
  }
  for (int j = 0; j < nk; ++j) {
#ifdef FAMILY_B
    v.push_back(__verif_choice(PRANGE)); d.push_back(__verif_nondet_i64(0, QLIM));
#else
    v.push_back(__verif_nondet_i64(-PLIM, PLIM));
#ifdef SHAPES24
    d.push_back(DD[shape][j]);
#else
    d.push_back(DMIN + __verif_choice(QMAX + 1 - DMIN));
#endif
#endif
    td += d[j];
  }
#ifdef SORTEDSINKS
  for (int j = 1; j < nk; ++j) __verif_assume(v[j - 1] <= v[j]);   // stated bound of this harness: sinks given in non-decreasing order
#endif
#ifdef NOBALANCE
  int balance = 0;
#else
  int balance = __verif_choice(2);
#endif
  Transportation1d pb(u, v, s, d);
  if (balance) {
    pb.balanceDemand();
    td = 0;
    for (int j = 0; j < nk; ++j) { d[j] = pb.sinkDemand()[j]; td += d[j]; }
    VASSERT(td >= ts, "balanceDemand makes total demand cover total supply");
  }
  __verif_assume(ts <= td);
  __verif_assume(td >= 1);
  __verif_cover("precondition holds");
  bool threw = false;
  Transportation1d::Solution sol;
  try {
    sol = pb.solve();
  } catch (const std::runtime_error&) { threw = true; }
  VASSERT(!threw, "solve() does not throw on a valid instance");
  // validity
  long long got[NS] = {0}, used[NK] = {0};
  long long cx = 0;
  for (size_t k = 0; k < sol.size(); ++k) {
    int i = std::get<0>(sol[k]), j = std::get<1>(sol[k]); long long a = std::get<2>(sol[k]);
    VASSERT(i >= 0 && i < ns && j >= 0 && j < nk, "plan indices in range");
    VASSERT(a > 0, "plan amounts positive");
    got[i] += a; used[j] += a;
    long long c = u[i] - v[j]; if (c < 0) c = -c;
    cx += a * c;
    __verif_observe(i); __verif_observe(j); __verif_observe(a);
  }
  for (int i = 0; i < ns; ++i) VASSERT(got[i] == s[i], "every source fully allocated");
  for (int j = 0; j < nk; ++j) VASSERT(used[j] <= d[j], "no sink over its demand");
  // optimality: arbitrary competitor plan y (integral; the LP is totally unimodular)
  long long cy = 0;
#ifndef FAMILY_B
  long long yu[NK] = {0};
  for (int i = 0; i < ns; ++i) {
    long long rem = s[i];
    for (int j = 0; j < nk; ++j) {
      long long y = (j + 1 == nk) ? rem : (long long)__verif_nondet_int(0, QMAX);
      __verif_assume(y >= 0 && y <= rem);
      rem -= y; yu[j] += y;
      long long c = u[i] - v[j]; if (c < 0) c = -c;
      for (int k = 1; k <= QMAX; ++k) cy += (y >= k) ? c : 0;   // y*c without a symbolic product
    }
  }
  for (int j = 0; j < nk; ++j) __verif_assume(yu[j] <= d[j]);
#else
  long long yu[NK] = {0};
  for (int i = 0; i < ns; ++i) {
    long long rem = s[i];
    for (int j = 0; j < nk; ++j) {
      long long y = (j + 1 == nk) ? rem : __verif_nondet_i64(0, QLIM);
      __verif_assume(y >= 0 && y <= rem);
      rem -= y; yu[j] += y;
      long long c = u[i] - v[j]; if (c < 0) c = -c;
      cy += y * c;
    }
  }
  for (int j = 0; j < nk; ++j) __verif_assume(yu[j] <= d[j]);
#endif
  VASSERT(cx <= cy, "plan cost minimal against arbitrary competitor plan");
  // rounded assignment
  threw = false;
  std::vector<int> as;
  Transportation1d pb2(u, v, s, d);
  try { as = pb2.assign(); } catch (const std::runtime_error&) { threw = true; }
  VASSERT(!threw, "assign() does not throw on a valid instance");
  VASSERT((int)as.size() == ns, "assignment has one entry per source");
  for (int i = 0; i < ns; ++i) {
    VASSERT(as[i] >= 0 && as[i] < nk, "assigned sink index in range");
    VASSERT(d[as[i]] > 0, "assigned sink has positive demand");
    __verif_observe(as[i]);
    // a source the plan does not split goes to the plan's sink or to one at the same position
    int cnt = 0, only = -1;
    for (size_t k = 0; k < sol.size(); ++k) if (std::get<0>(sol[k]) == i) { ++cnt; only = std::get<1>(sol[k]); }
    if (cnt == 1) VASSERT(as[i] == only || v[as[i]] == v[only], "unsplit source is assigned to the plan's sink (or one at the same position)");
  }
  __verif_cover("end");
}
