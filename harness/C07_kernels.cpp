// C07 magnitude kernels: arithmetic that must not overflow inside the supported range (|v| <= 2^22, areas < 2^31).
#include "all_src.h"
using namespace coloquinte;
#define LIM (1 << 22)
#if defined(H07S)
// bin subdivision of a placement area up to 2^23 wide into many bins
extern "C" void harness() {
  int mn = __verif_nondet_int(-LIM, LIM); int mx = __verif_nondet_int(-LIM, LIM);
  __verif_assume(mn <= mx);
  int sel = __verif_choice(4);
  int number = sel == 0 ? 1 : (sel == 1 ? 7 : (sel == 2 ? 300 : 1200));
  std::vector<int> r = computeSubdivisions(mn, mx, number);
  VASSERT((int)r.size() == number + 1 && r.front() == mn && r.back() == mx, "subdivision spans the interval");
  int q = __verif_nondet_int(0, 1199);
  __verif_assume(q < number);
  VASSERT(r[q] <= r[q + 1] && r[q] >= mn && r[q + 1] <= mx, "limits are monotone and inside the interval");
  __verif_cover("end");
}
#else
// wirelength and area accumulations at full magnitude
extern "C" void harness() {
  const int NC = 3;
  Circuit c(NC);
  std::vector<int> w, h, x, y;
  for (int i = 0; i < NC; ++i) {
    int wi = __verif_nondet_int(0, LIM); int hi = __verif_nondet_int(0, LIM); int xi = __verif_nondet_int(-LIM, LIM); int yi = __verif_nondet_int(-LIM, LIM);
    __verif_assume((long long)wi * hi < 2147483648LL);
    w.push_back(wi); h.push_back(hi); x.push_back(xi); y.push_back(yi);
  }
  c.setCellWidth(w); c.setCellHeight(h); c.setCellX(x); c.setCellY(y);
  int ox = __verif_nondet_int(-LIM, LIM); int oy = __verif_nondet_int(-LIM, LIM);
  c.addNet({0, 1, 2}, {ox, 0, 1}, {oy, 2, 3});
  long long wl = c.hpwl();
  long long a = c.area(0) + c.area(1) + c.area(2);
  VASSERT(wl >= 0 && a >= 0, "wirelength and area are non-negative");
  Rectangle r = c.placement(0);
  VASSERT(r.area() == c.area(0), "placement rectangle has the cell area");
  __verif_cover("end");
}
#endif
