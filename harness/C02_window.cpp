// H02W / H05W: the window drivers of the detailed placer (DetailedPlacer::runShifts -> runShiftsOnRows -> runShiftsOnCells and
// DetailedPlacer::runReordering -> runReorderingOnRows -> runReorderingOnCells) called with ARBITRARY window arguments (number of
// rows, maximum number of cells) on a three-row placement: row neighbourhoods, overlapping windows, windows that end in the
// middle of a row or span rows.  Afterwards: no failure, the repository's checks pass, the exported placement is legal (C02),
// the wirelength did not increase and the incremental value is the real one (C05).
#include "all_src.h"
#include "legal.h"
using namespace coloquinte;
extern "C" void harness() {
  const int RH = 10;
  int pass = __verif_choice(2);          // 0: shifts, 1: reordering
  int nr = 1 + __verif_choice(3);        // rows considered together: 1..3
  int mcIdx = __verif_choice(3);
  int mc = mcIdx == 0 ? 2 : (mcIdx == 1 ? 3 : 5);   // maximum number of cells of a window
  const int T = 5;                       // cells 0,1 on row 0; 2,3 on row 1; 4 on row 2; 5 fixed terminal
  Circuit c(6);
  const int rw = 30;
  std::vector<Row> rows;
  rows.push_back(Row(0, rw, 0, RH, CellOrientation::N)); rows.push_back(Row(0, rw, RH, 2 * RH, CellOrientation::FS)); rows.push_back(Row(0, rw, 2 * RH, 3 * RH, CellOrientation::N));
  c.setRows(rows);
  // the shift windows are solved under the network-simplex contract (an arbitrary optimal dual), which already multiplies the
  // paths: positions are concrete there; the reordering windows get a symbolic start and terminal
  int s = 1, fx = 12;
  if (pass == 1) { s = __verif_nondet_int(0, 3); fx = __verif_nondet_int(-30, 90); }
  c.setCellWidth({3, 5, 2, 4, 3, 4}); c.setCellHeight({RH, RH, RH, RH, RH, 4});
  c.setCellX({s, s + 6, 1, 6, 10, fx}); c.setCellY({0, 0, RH, RH, 2 * RH, 13});
  c.setCellIsFixed({false, false, false, false, false, true});
  c.setCellIsObstruction({true, true, true, true, true, false});
  std::vector<CellOrientation> ori(6, CellOrientation::N);
  c.addNet({0, T}, {1, 3}, {2, 1});
  c.addNet({2, T}, {0, 3}, {3, 0});
  c.addNet({1, 3, 4}, {2, 1, 0}, {1, 2, 0});
  vlegal::assertLegal(c, ori);
  ColoquinteParameters p(1);
  DetailedPlacer pl(c, p);
  pl.check();
  long long before = pl.value();
  VASSERT(before == c.hpwl(), "initial incremental value equals the circuit wirelength");
  __verif_cover("placer built");
  bool threw = false;
  try {
    if (pass == 0) pl.runShifts(nr, mc); else pl.runReordering(nr, mc);
    pl.placement_.check(); pl.check();
  } catch (const std::runtime_error&) { threw = true; }
  VASSERT(!threw, "the pass does not fail for any window arguments and the placement passes the repository's own checks");
  long long after = pl.value();
  VASSERT(after <= before, "the pass never increases the wirelength");
  pl.exportPlacement(c);
  VASSERT(c.hpwl() == after, "incremental value equals the real wirelength after the pass");
  vlegal::assertLegal(c, ori);
  // (the shift result is one of several optimal solutions: only the reordering result is compared with the native run)
  if (pass == 1) for (int i = 0; i < 5; ++i) { __verif_observe(c.x(i)); __verif_observe(c.y(i)); }
  __verif_cover("end");
}
