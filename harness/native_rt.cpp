// Native side of the harness API: replays a counterexample / sample path found by irsx against the real build.
// usage: ./harness_native <replay.json>   (reads the "native" field: "c <choices...> d <draws...>")
#include <cstdio>
#include <cstdlib>
#include <cstring>
#include <string>
#include <vector>
#include <exception>
#include <stdexcept>
#include "verif.h"

static std::vector<long long> g_choices;
static std::vector<std::string> g_draws;
static size_t g_ci = 0, g_di = 0;
struct Prot { const void* p; unsigned long n; std::string snap; };
static std::vector<Prot> g_prot;

static void load(const char* path) {
  FILE* f = fopen(path, "rb");
  if (!f) { fprintf(stderr, "cannot open %s\n", path); exit(9); }
  std::string s; char buf[4096]; size_t k;
  while ((k = fread(buf, 1, sizeof buf, f)) > 0) s.append(buf, k);
  fclose(f);
  size_t a = s.find("\"native\"");
  if (a == std::string::npos) { fprintf(stderr, "no native field\n"); exit(9); }
  a = s.find('"', s.find(':', a)) + 1;
  size_t b = s.find('"', a);
  std::string t = s.substr(a, b - a);
  int mode = 0; size_t i = 0;
  while (i < t.size()) {
    while (i < t.size() && t[i] == ' ') ++i;
    size_t j = i; while (j < t.size() && t[j] != ' ') ++j;
    if (j == i) break;
    std::string tok = t.substr(i, j - i); i = j;
    if (tok == "c") mode = 1; else if (tok == "d") mode = 2;
    else if (mode == 1) g_choices.push_back(atoll(tok.c_str()));
    else g_draws.push_back(tok);
  }
}
static const std::string& next_draw() {
  if (g_di >= g_draws.size()) { printf("REPLAY-EXHAUSTED\n"); fflush(stdout); exit(6); }
  return g_draws[g_di++];
}
static void check_prot() {
  for (auto& pr : g_prot)
    if (memcmp(pr.p, pr.snap.data(), pr.n) != 0) { printf("PROTECT-FAIL\n"); fflush(stdout); exit(7); }
}
extern "C" {
int __verif_nondet_int(int lo, int hi) { long long v = atoll(next_draw().c_str()); if (v < lo || v > hi) { printf("ASSUME-FALSE\n"); fflush(stdout); exit(4); } return (int)v; }
long long __verif_nondet_i64(long long lo, long long hi) { long long v = atoll(next_draw().c_str()); if (v < lo || v > hi) { printf("ASSUME-FALSE\n"); fflush(stdout); exit(4); } return v; }
float __verif_nondet_float(float lo, float hi) { float v = strtof(next_draw().c_str(), nullptr); return v; }
double __verif_nondet_double(double lo, double hi) { double v = strtod(next_draw().c_str(), nullptr); return v; }
int __verif_choice(int n) { if (n <= 1) return 0; if (g_ci >= g_choices.size()) { printf("REPLAY-EXHAUSTED\n"); fflush(stdout); exit(6); } return (int)g_choices[g_ci++]; }
void __verif_assume(bool c) { if (!c) { printf("ASSUME-FALSE\n"); fflush(stdout); exit(4); } }
void __verif_assert(bool c, const char* what) { if (!c) { printf("ASSERT-FAIL %s\n", what); fflush(stdout); exit(3); } }
void __verif_cover(const char* label) { printf("COVER %s\n", label); }
void __verif_observe(long long v) { printf("OBS %lld\n", v); }
void __verif_observe_f(double v) { printf("OBSF %.17g\n", v); }
void __verif_protect(const void* p, unsigned long n) { g_prot.push_back(Prot{p, n, std::string((const char*)p, n)}); }
void __verif_unprotect(const void* p, unsigned long n) {
  check_prot();
  for (size_t i = 0; i < g_prot.size(); ++i) if (g_prot[i].p == p && g_prot[i].n == n) { g_prot.erase(g_prot.begin() + i); break; }
}
void __verif_note(const char*) {}
void __verif_havoc_int_range(long long, long long) {}
void __verif_assert_env(bool, const char*) {}
void __verif_env_input_f(double) {}
void __verif_env_input(long long) {}
double __verif_uf_mix(double, double) { return 0.0; }
float __verif_cg_result(double, int) { return 0.0f; }
void harness();
}
int main(int argc, char** argv) {
  if (argc < 2) { fprintf(stderr, "usage: %s replay.json\n", argv[0]); return 9; }
  load(argv[1]);
  try {
    harness();
  } catch (const std::exception& e) {
    printf("EXCEPTION-ESCAPE %s\n", e.what()); fflush(stdout); return 5;
  } catch (...) {
    printf("EXCEPTION-ESCAPE unknown\n"); fflush(stdout); return 5;
  }
  // protected regions are compared when they are unprotected; the harness objects are gone by now
  printf("DONE\n");
  return 0;
}
