// H04T: cellOrientationInRow / oppositeRowOrientation / isTurn against the documented table, for every input (loop-free).
#include "verif_std.h"
#include "parameters.cpp"
#include "legal.h"
using namespace coloquinte;
extern "C" void harness() {
  int pol = __verif_nondet_int(0, 4); int row = __verif_nondet_int(0, 9);
  CellOrientation got = cellOrientationInRow((CellRowPolarity)pol, (CellOrientation)row);
  // documented: ANY -> keep (UNKNOWN); SAME -> row orientation; OPPOSITE -> vertical flip of the row orientation;
  // NW -> rows whose orientation starts with N or W (flipping allowed: N, FN, W, FW); SE -> S, FS, E, FE; otherwise INVALID
  static const int opp[10] = {5, 4, 7, 6, 1, 0, 3, 2, 8, 8};   // vertical flip (MX): N<->FS, S<->FN, W<->FE, E<->FW
  int want;
  if (pol == 0) want = 9;
  else if (pol == 1) want = row;
  else if (pol == 2) want = opp[row];
  else if (pol == 3) want = (row == 0 || row == 4 || row == 2 || row == 6) ? row : 8;
  else want = (row == 1 || row == 5 || row == 3 || row == 7) ? row : 8;
  VASSERT((int)got == want, "cellOrientationInRow follows the documented polarity table");
  if (row < 8) {
    CellOrientation o2 = oppositeRowOrientation(oppositeRowOrientation((CellOrientation)row));
    VASSERT((int)o2 == row, "oppositeRowOrientation is an involution on the eight orientations");
    VASSERT(isTurn(oppositeRowOrientation((CellOrientation)row)) == isTurn((CellOrientation)row), "a vertical flip does not turn the cell");
    VASSERT(vlegal::prescribed((CellRowPolarity)pol, (CellOrientation)row, CellOrientation::S) == (want == 9 ? 1 : want), "harness oracle agrees with the table");
  }
  __verif_observe((int)got);
  __verif_cover("end");
}
