// C17: the linear system assembled for the continuous solver honours real-valued net weights.
#include "all_src.h"
using namespace coloquinte;
#if defined(H17B)
// two-pin net, initial star model: entries are exactly w, -w and rhs w*(offs2-offs1) for a real-valued weight w
extern "C" void harness() {
  float w = __verif_nondet_float(0.0078125f, 64.0f);
  float o0 = __verif_nondet_float(-1000.0f, 1000.0f); float o1 = __verif_nondet_float(-1000.0f, 1000.0f);
  int mode = __verif_choice(3);
  int fixedPin = mode == 1;
  NetModel m(2);
  if (fixedPin) m.addNet({0}, {o0}, o1, o1, w);      // movable pin + one fixed pin at o1
  else if (mode == 0) m.addNet({0, 1}, {o0, o1}, w);
  else m.addNet({0, 1}, {o0, o1}, std::numeric_limits<float>::infinity(), -std::numeric_limits<float>::infinity(), w);   // the form xTopology uses, no fixed pin
  m.check();
  VASSERT(m.nbNets() == 1, "net registered");
  VASSERT(m.netWeight(0) == w, "the net model keeps the real-valued weight");
  MatrixCreator mc = MatrixCreator::createStar(m);
  const std::vector<Eigen::Triplet<float> >& t = mc.mat();
  if (fixedPin) {
    VASSERT(t.size() == 1 && t[0].row() == 0 && t[0].col() == 0, "one diagonal entry for a pin attached to a fixed point");
    VASSERT(t[0].value() == w, "diagonal entry equals the weight");
    VASSERT(mc.rhs()[0] == w * (o1 - o0), "right-hand side equals weight * (fixed position - offset)");
  } else {
    VASSERT(t.size() == 4, "four entries for a two-pin net");
    float sumDiag = 0.0f;
    for (size_t k = 0; k < t.size(); ++k) {
      if (t[k].row() == t[k].col()) VASSERT(t[k].value() == w, "diagonal entries equal the weight");
      else VASSERT(t[k].value() == -w, "off-diagonal entries equal minus the weight");
    }
    VASSERT(mc.rhs()[0] == w * (o1 - o0) && mc.rhs()[1] == w * (o0 - o1), "right-hand side equals weight * offset difference");
  }
  __verif_cover("end");
}
#else
// H17A: scaling all weights by 2^k scales every assembled entry by exactly 2^k (two-pin nets, initial star model)
extern "C" void harness() {
  float w = __verif_nondet_float(0.0078125f, 64.0f);
  float o0 = __verif_nondet_float(-1000.0f, 1000.0f); float o1 = __verif_nondet_float(-1000.0f, 1000.0f);
  int k = __verif_choice(9) - 4;
  float f = 1.0f; for (int i = 0; i < (k < 0 ? -k : k); ++i) f *= (k < 0 ? 0.5f : 2.0f);
  NetModel m1(2), m2(2);
  m1.addNet({0, 1}, {o0, o1}, w); m2.addNet({0, 1}, {o0, o1}, w * f);
  MatrixCreator a = MatrixCreator::createStar(m1), b = MatrixCreator::createStar(m2);
  VASSERT(a.mat().size() == b.mat().size(), "same sparsity");
  for (size_t i = 0; i < a.mat().size(); ++i) VASSERT(b.mat()[i].value() == a.mat()[i].value() * f, "matrix entries scale by exactly 2^k");
  VASSERT(b.rhs()[0] == a.rhs()[0] * f && b.rhs()[1] == a.rhs()[1] * f, "right-hand side scales by exactly 2^k");
  __verif_cover("end");
}
#endif
