// C17: the linear system assembled for the continuous solver honours real-valued net weights.
#include "all_src.h"
using namespace coloquinte;
#if defined(H17B)
// two-pin net, initial star model: entries are exactly w, -w and rhs w*(offs2-offs1) for a real-valued weight w
extern "C" void harness() {
  float w = __verif_nondet_float(0.0078125f, 64.0f);
  float o0 = __verif_nondet_float(-1000.0f, 1000.0f); float o1 = __verif_nondet_float(-1000.0f, 1000.0f);
  int mode = __verif_choice(3);
  int fixedPin = mode == 1;
  NetModel m(2);
  if (fixedPin) m.addNet({0}, {o0}, o1, o1, w);      // movable pin + one fixed pin at o1
  else if (mode == 0) m.addNet({0, 1}, {o0, o1}, w);
  else m.addNet({0, 1}, {o0, o1}, std::numeric_limits<float>::infinity(), -std::numeric_limits<float>::infinity(), w);   // the form xTopology uses, no fixed pin
  m.check();
  VASSERT(m.nbNets() == 1, "net registered");
  VASSERT(m.netWeight(0) == w, "the net model keeps the real-valued weight");
  MatrixCreator mc = MatrixCreator::createStar(m);
  const std::vector<Eigen::Triplet<float> >& t = mc.mat();
  if (fixedPin) {
    VASSERT(t.size() == 1 && t[0].row() == 0 && t[0].col() == 0, "one diagonal entry for a pin attached to a fixed point");
    VASSERT(t[0].value() == w, "diagonal entry equals the weight");
    VASSERT(mc.rhs()[0] == w * (o1 - o0), "right-hand side equals weight * (fixed position - offset)");
  } else {
    VASSERT(t.size() == 4, "four entries for a two-pin net");
    float sumDiag = 0.0f;
    for (size_t k = 0; k < t.size(); ++k) {
      if (t[k].row() == t[k].col()) VASSERT(t[k].value() == w, "diagonal entries equal the weight");
      else VASSERT(t[k].value() == -w, "off-diagonal entries equal minus the weight");
    }
    VASSERT(mc.rhs()[0] == w * (o1 - o0) && mc.rhs()[1] == w * (o0 - o1), "right-hand side equals weight * offset difference");
  }
  __verif_cover("end");
}
#elif defined(H17L)
// H17L: a three-pin net with concrete pin positions (0, 4, 16) and a SYMBOLIC real-valued weight under the LightStar and
// bound-to-bound models: the total pull on the interior cell (the diagonal of its row) is w/2 * (1/4 + 1/12) = w/6, i.e.
// proportional to the weight (linear floating-point error model, relative tolerance 1e-4).
extern "C" void harness() {
  float w = __verif_nondet_float(0.0078125f, 64.0f);
  int model = __verif_choice(2);
  NetModel m(3);
  m.addNet({0, 1, 2}, {0.0f, 0.0f, 0.0f}, w);
  m.check();
  std::vector<float> pl = {0.0f, 4.0f, 16.0f};
  MatrixCreator mc = model == 0 ? MatrixCreator::createLightStar(m, pl, 1.0f) : MatrixCreator::createB2B(m, pl, 1.0f);
  const std::vector<Eigen::Triplet<float> >& t = mc.mat();
  float diag = 0.0f;
  for (size_t k = 0; k < t.size(); ++k) if (t[k].row() == 1 && t[k].col() == 1) diag += t[k].value();
  VASSERT(diag >= w * 0.16665f && diag <= w * 0.16668f, "the pull of a net on an interior cell is proportional to its real-valued weight (w/6 here)");
  __verif_cover("end");
}
#elif defined(H17C)
// H17C: the constant regulariser of finalize() (an UNSCALED 1e-8 on the diagonal) is added only to rows that received no diagonal
// contribution: otherwise scaling all weights and penalties by a common factor would change the system other than by that
// factor.  A cell with a weighted net and a penalty of strength exactly 0 (or positive) must not get it.
extern "C" void harness() {
  float w = __verif_nondet_float(0.0078125f, 64.0f);
  float o0 = __verif_nondet_float(-1000.0f, 1000.0f); float fp = __verif_nondet_float(-1000.0f, 1000.0f);
  NetModel m(2);
  m.addNet({0}, {o0}, fp, fp, w);               // cell 0: movable pin + one fixed pin; cell 1: no net
  MatrixCreator mc = MatrixCreator::createStar(m);
  int z0 = __verif_choice(2), z1 = __verif_choice(2), order = __verif_choice(2);
  float s0 = 0.0f, s1 = 0.0f;
  if (!z0) s0 = __verif_nondet_float(0.01f, 2.0f);
  if (!z1) s1 = __verif_nondet_float(0.01f, 2.0f);
  if (order) mc.addPenalty({3.0f, 5.0f}, {7.0f, 5.5f}, {s0, s1}, 1.0f);     // distances 4 and 0.5 (cutoff 1)
  size_t n0 = mc.mat().size();
  mc.finalize();
  const std::vector<Eigen::Triplet<float> >& t = mc.mat();
  for (size_t k = n0; k < t.size(); ++k) {
    VASSERT(t[k].row() == t[k].col(), "the regulariser is diagonal");
    VASSERT(t[k].row() != 0, "no unscaled regulariser on a row that already has a weighted diagonal entry");
  }
  VASSERT(t.size() <= n0 + 1, "at most the net-less cell is regularised");
#ifndef VERIF_NATIVE
  // the stopping criteria handed to the conjugate-gradient solver are the caller's, unscaled (a tolerance that depended on the
  // right-hand side would make the result depend on a common scaling of weights and penalties)
  float tol = __verif_nondet_float(1.0e-6f, 0.1f);
  int maxit = __verif_nondet_int(1, 10000);
  std::vector<float> sol = mc.solve(tol, maxit);
  VASSERT(sol.size() == 2, "one coordinate per cell");
  __verif_assert_env(__verif_cg_tolerance == tol && __verif_cg_max_iterations == maxit, "the solver receives the tolerance and iteration limit unchanged");
#endif
  __verif_cover("end");
}
#else
// H17A: scaling all weights by 2^k scales every assembled entry by exactly 2^k (two-pin nets, initial star model)
extern "C" void harness() {
  float w = __verif_nondet_float(0.0078125f, 64.0f);
  float o0 = __verif_nondet_float(-1000.0f, 1000.0f); float o1 = __verif_nondet_float(-1000.0f, 1000.0f);
  int k = __verif_choice(9) - 4;
  float f = 1.0f; for (int i = 0; i < (k < 0 ? -k : k); ++i) f *= (k < 0 ? 0.5f : 2.0f);
  NetModel m1(2), m2(2);
  m1.addNet({0, 1}, {o0, o1}, w); m2.addNet({0, 1}, {o0, o1}, w * f);
  MatrixCreator a = MatrixCreator::createStar(m1), b = MatrixCreator::createStar(m2);
  VASSERT(a.mat().size() == b.mat().size(), "same sparsity");
  for (size_t i = 0; i < a.mat().size(); ++i) VASSERT(b.mat()[i].value() == a.mat()[i].value() * f, "matrix entries scale by exactly 2^k");
  VASSERT(b.rhs()[0] == a.rhs()[0] * f && b.rhs()[1] == a.rhs()[1] * f, "right-hand side scales by exactly 2^k");
  __verif_cover("end");
}
#endif
