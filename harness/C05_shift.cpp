// H05S / H02D: the shift pass (DetailedPlacer::runShiftsOnCells) under the network-simplex CONTRACT (arbitrary optimal dual
// solution of the graph the repository built): the new x positions keep ordering and boundaries (C02) and do not increase the
// wirelength (C05).  This checks the repository's arc construction (direction, sign, offsets, window boundaries), not lemon.
#include "all_src.h"
#include "legal.h"
using namespace coloquinte;
extern "C" void harness() {
  const int RH = 10, NC = 4;        // cells 0..2 movable in one row (left to right), cell 3 fixed (terminal with a pin)
  Circuit c(NC);
  int rw = __verif_nondet_int(20, 60);
  c.setupRows(Rectangle(0, rw, 0, RH), RH);
  int x0 = __verif_nondet_int(0, 60); int g1 = __verif_choice(3) * 2; int g2 = __verif_choice(3) * 3;
  int w0 = 3, w1 = 5, w2 = 2;
  int x1 = x0 + w0 + g1, x2 = x1 + w1 + g2;
  __verif_assume(x2 + w2 <= rw);
  int fx = __verif_nondet_int(-30, 90);
  c.setCellWidth({w0, w1, w2, 4}); c.setCellHeight({RH, RH, RH, 4}); c.setCellX({x0, x1, x2, fx}); c.setCellY({0, 0, 0, 30});
  c.setCellIsFixed({false, false, false, true}); c.setCellIsObstruction({true, true, true, false});
  int off = __verif_choice(2) ? 7 : 0;
  c.addNet({0, 3}, {1, off}, {2, 1});
  c.addNet({1, 3}, {2, off}, {0, 0});
  c.addNet({2, 1}, {0, 4}, {1, 1});
  ColoquinteParameters p(1);
  DetailedPlacer pl(c, p);
  pl.check();
  long long before = pl.value();
  VASSERT(before == c.hpwl(), "initial incremental value equals the circuit wirelength");
  int window = __verif_choice(3);        // 0: all three cells, 1: cells 1,2 (window starts inside the row), 2: cells 0,1
  std::vector<int> cells;
  if (window != 1) cells.push_back(0);
  cells.push_back(1);
  if (window != 2) cells.push_back(2);
  __verif_cover("placer built");
  bool threw = false;
  try { pl.runShiftsOnCells(cells); pl.placement_.check(); pl.check(); } catch (const std::runtime_error&) { threw = true; }
  VASSERT(!threw, "the shifted placement passes the repository's own checks (ordering, boundaries)");
  VASSERT(pl.placement_.cellX(0) + w0 <= pl.placement_.cellX(1) && pl.placement_.cellX(1) + w1 <= pl.placement_.cellX(2), "cell order and spacing kept");
  VASSERT(pl.placement_.cellX(0) >= 0 && pl.placement_.cellX(2) + w2 <= rw, "cells stay inside the row");
  if (window == 1) VASSERT(pl.placement_.cellX(0) == x0, "cells outside the window do not move");
  if (window == 2) VASSERT(pl.placement_.cellX(2) == x2, "cells outside the window do not move");
  long long after = pl.value();
  VASSERT(after <= before, "the shift pass never increases the wirelength");
  pl.exportPlacement(c);
  VASSERT(c.hpwl() == after, "incremental value equals the real wirelength after the pass");
  __verif_cover("end");
}
