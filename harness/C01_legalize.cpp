// C01 (and C04, C03 riders): Circuit::legalize end to end on a tiny symbolic circuit.
#include "all_src.h"
#include "legal.h"
using namespace coloquinte;
#ifndef NC
#define NC 2
#endif
#ifndef NFIXED
#define NFIXED 0
#endif
#ifndef POL1CHOICES
#define POL1CHOICES POLCHOICES
#endif
#ifndef TALLALL
#define TALLALL 0
#endif
#ifndef GAPFROM
#define GAPFROM 2
#endif
#ifndef XLIM
#define XLIM 64
#endif
extern "C" void harness() {
  const int RH = 10;
  const int n = NC + NFIXED;
  Circuit c(n);
  std::vector<int> w, h, x, y; std::vector<bool> fx(n, false), ob(n, true); std::vector<CellOrientation> orient; std::vector<CellRowPolarity> pol;
  bool anyTall = false, anyPol = false; long long sumW = 0; int maxW = 0;
  for (int i = 0; i < NC; ++i) {
    int tall = (TALLALL == 2) ? 1 : ((i == 0 || TALLALL) ? __verif_choice(TALLCHOICES) : 0);   // cell 0 (or every cell) may span 2 rows
#ifdef WCHOICE
    int wi = (TALLALL == 2) ? (i == 0 ? 9 : 4) : (__verif_choice(2) ? 9 : 4);
#else
    int wi = __verif_nondet_int(1, 12);
#endif
    int xi = __verif_nondet_int(-XLIM, 2 * XLIM);
#ifdef YCHOICE
    int yi = __verif_choice(3) * 13 - 7;    // -7, 6, 19
#else
    int yi = __verif_nondet_int(-XLIM, 2 * XLIM);
#endif
#ifdef POLSYM
    int pi = __verif_nondet_int(0, POLCHOICES - 1);                  // 0 ANY 1 SAME 2 OPPOSITE 3 NW 4 SE
    int oi = 0;
#else
    int pi = __verif_choice(i == 0 ? POLCHOICES : POL1CHOICES);
    int oi = (pi == 0) ? __verif_choice(ORICHOICES) : 0;             // turned orientations only without polarity
#endif
    w.push_back(wi); h.push_back(tall ? 2 * RH : RH); x.push_back(xi); y.push_back(yi);
    pol.push_back((CellRowPolarity)pi); orient.push_back((CellOrientation)oi);
    if (tall) anyTall = true; if (pi != 0) anyPol = true;
  }
  for (int i = NC; i < n; ++i) {   // fixed cells: anywhere, obstruction or not
#ifdef FIXEDFULL
    int wi = __verif_nondet_int(1, 20); int hi = 25; int xi = __verif_nondet_int(0, XLIM); int yi = -2;   // covers every row: splits them in two segments
#elif defined(FIXEDPART)
    int wi = __verif_nondet_int(1, 40); int hi = RH; int xi = __verif_nondet_int(-8, XLIM); int yi = __verif_choice(2) * RH;   // covers part of ONE row: stacked rows with different free intervals
#else
    int wi = __verif_nondet_int(0, 40); int hi = __verif_nondet_int(0, 25); int xi = __verif_nondet_int(-XLIM, 2 * XLIM); int yi = __verif_nondet_int(-XLIM, 2 * XLIM);
#endif
    w.push_back(wi); h.push_back(hi); x.push_back(xi); y.push_back(yi); pol.push_back(CellRowPolarity::ANY); orient.push_back(CellOrientation::N);
    fx[i] = true;
#if defined(FIXEDFULL) || defined(FIXEDPART)
    ob[i] = true;
#else
    ob[i] = __verif_choice(2) != 0;
#endif
  }
  c.setCellWidth(w); c.setCellHeight(h); c.setCellX(x); c.setCellY(y); c.setCellIsFixed(fx); c.setCellIsObstruction(ob); c.setCellOrientation(orient); c.setCellRowPolarity(pol);
  // rows: NROWS rows of height RH, possibly with a vertical gap, N/FS pattern chosen
  int rw = __verif_nondet_int(8, XLIM);
  std::vector<Row> rows;
  int pattern = __verif_choice(ROWPATTERNS);   // 0: N,FS alternating  1: all N  2: FS,N  3: S,FN
  static const CellOrientation pat[4][3] = {{CellOrientation::N, CellOrientation::FS, CellOrientation::N}, {CellOrientation::N, CellOrientation::N, CellOrientation::N},
                                            {CellOrientation::FS, CellOrientation::N, CellOrientation::FS}, {CellOrientation::S, CellOrientation::FN, CellOrientation::S}};
  int gap = __verif_choice(GAPCHOICES);
  for (int r = 0; r < NROWS; ++r) rows.push_back(Row(0, rw, r * RH + (r >= GAPFROM ? gap * RH : 0), (r + 1) * RH + (r >= GAPFROM ? gap * RH : 0), pat[pattern][r]));
  c.setRows(rows);
  c.addNet({0, NC - 1}, {1, 2}, {3, 4});
  ColoquinteParameters p(1);
  int pset = __verif_choice(PARAMSETS);
  if (pset == 1) { p.legalization.orderingWidth = 2.0; p.legalization.orderingY = 0.2; }
  if (pset == 2) { p.legalization.orderingWidth = -1.0; p.legalization.orderingY = -0.2; p.legalization.orderingHeight = 1.0; }
  // C03: nothing but x / y / orientation of movable cells may be written (fixed cells are after the movable ones here)
  std::vector<int> bx = c.cellX(), by = c.cellY(); std::vector<CellOrientation> bo = c.cellOrientation();
  bool threw = false;
  try { c.legalize(p); } catch (const std::runtime_error&) { threw = true; }
  __verif_cover("legalize ended");
  // C03 frame condition (post-state comparison at the public getters)
  VASSERT(c.cellWidth() == w && c.cellHeight() == h, "cell sizes untouched");
  VASSERT(c.cellIsFixed() == fx && c.cellIsObstruction() == ob && c.cellRowPolarity() == pol, "flags and polarities untouched");
  for (int i = NC; i < n; ++i) VASSERT(c.x(i) == x[i] && c.y(i) == y[i] && c.orientation(i) == orient[i], "fixed cells keep position and orientation");
  VASSERT(c.nbNets() == 1 && c.pinCell(0, 0) == 0 && c.pinCell(0, 1) == NC - 1 && c.netWeight(0) == 1.0f, "nets untouched");
  VASSERT(c.nbRows() == NROWS, "rows untouched");
  if (threw) {
    VASSERT(c.cellX() == bx && c.cellY() == by && c.cellOrientation() == bo, "a failed legalization leaves the placement as it was");
    // never fails when success is trivial
    if (!anyTall && !anyPol) {
      std::vector<Row> free = c.computeRows();
      long long total = 0; int mw = 0;
      for (int i = 0; i < NC; ++i) { total += c.placedWidth(i); if (c.placedWidth(i) > mw) mw = c.placedWidth(i); }
      bool turned = false; for (int i = 0; i < NC; ++i) if (vlegal::isTurned(orient[i])) turned = true;
      long long avail = 0; for (size_t r = 0; r < free.size(); ++r) avail += free[r].width() - mw;
      if (!turned) VASSERT(!(total <= avail), "legalization never fails when success is trivial (total width <= free width less one max cell width per segment)");
    }
    __verif_cover("legalize threw");
  } else {
    vlegal::assertLegal(c, orient);
    for (int i = 0; i < NC; ++i) { __verif_observe(c.x(i)); __verif_observe(c.y(i)); __verif_observe((int)c.orientation(i)); }
    __verif_cover("legalize returned");
  }
  __verif_cover("end");
}
