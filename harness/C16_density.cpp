// C16: density bins account for all free area; every cell of non-zero area is in exactly one bin through refine/coarsen.
#include "all_src.h"
using namespace coloquinte;
#if defined(H16A)
// DensityGrid(binSize, regions): limits tile the bounding box, capacity(i,j) = sum of region-bin overlaps, total = total region area
#ifndef NREG
#define NREG 2
#endif
#ifndef YCH
#define YCH 2
#endif
extern "C" void harness() {
  int binSize = __verif_choice(2) ? 7 : 4;
  int nreg = 1 + __verif_choice(NREG);
  std::vector<Rectangle> regs;
  long long totalArea = 0;
  for (int r = 0; r < nreg; ++r) {
    int a = __verif_nondet_int(-30, 30); int b = __verif_nondet_int(-30, 30);
    int c = 8 * __verif_choice(YCH); int d = c + 8;        // rows have a fixed height (YCH 3: a vertical gap is possible); x extents are symbolic (keeps areas linear)
    __verif_assume(a < b && c < d);
    for (size_t q = 0; q < regs.size(); ++q) __verif_assume(b <= regs[q].minX || regs[q].maxX <= a || d <= regs[q].minY || regs[q].maxY <= c);   // rows are disjoint
    regs.push_back(Rectangle(a, b, c, d)); totalArea += (long long)(b - a) * (d - c);
  }
  int mnx = regs[0].minX, mxx = regs[0].maxX, mny = regs[0].minY, mxy = regs[0].maxY;
  for (int r = 1; r < nreg; ++r) { mnx = std::min(mnx, regs[r].minX); mxx = std::max(mxx, regs[r].maxX); mny = std::min(mny, regs[r].minY); mxy = std::max(mxy, regs[r].maxY); }
  __verif_assume(mxx - mnx <= 3 * binSize + binSize - 1 && mxy - mny <= YCH * binSize + binSize - 1);   // at most 3 x YCH bins
  DensityGrid g(binSize, regs);
  __verif_cover("grid built");
  VASSERT(g.nbBinsX() >= 1 && g.nbBinsY() >= 1, "at least one bin");
  VASSERT(g.binLimitX(0) == mnx && g.binLimitX(g.nbBinsX()) == mxx && g.binLimitY(0) == mny && g.binLimitY(g.nbBinsY()) == mxy, "bin limits span the bounding box of the regions");
  for (int i = 0; i < g.nbBinsX(); ++i) VASSERT(g.binLimitX(i) <= g.binLimitX(i + 1), "x limits non-decreasing (bins tile the area)");
  for (int j = 0; j < g.nbBinsY(); ++j) VASSERT(g.binLimitY(j) <= g.binLimitY(j + 1), "y limits non-decreasing (bins tile the area)");
  long long sum = 0;
  for (int i = 0; i < g.nbBinsX(); ++i) for (int j = 0; j < g.nbBinsY(); ++j) {
    long long expect = 0;
    for (int r = 0; r < nreg; ++r) {
      long long ox = (long long)std::min(regs[r].maxX, g.binLimitX(i + 1)) - std::max(regs[r].minX, g.binLimitX(i));
      long long oy = (long long)std::min(regs[r].maxY, g.binLimitY(j + 1)) - std::max(regs[r].minY, g.binLimitY(j));
      if (ox > 0 && oy > 0) expect += ox * oy;
    }
    VASSERT(g.binCapacity(i, j) == expect, "bin capacity equals the free area inside the bin");
    sum += g.binCapacity(i, j);
    __verif_observe(g.binCapacity(i, j));
  }
  VASSERT(sum == totalArea && g.totalCapacity() == totalArea, "the bins account for all free area");
  __verif_cover("end");
}
#elif defined(H16F)
// H16F: DensityGrid::fromIspdCircuit on rows cut by two fixed macros at symbolic places (left part, channel between the macros,
// right part): the grid accounts exactly for the free row area AFTER the side margin (segments not wider than twice the margin are
// dropped entirely), and no bin has a negative capacity.
extern "C" void harness() {
  Circuit c(3);                    // cell 0 movable (sets the standard cell height 10), cells 1 and 2 fixed macros over the rows
  int m = __verif_nondet_int(0, 25), w = __verif_nondet_int(1, 12), gap = __verif_nondet_int(0, 22);
  const int W = 70, WB = 6;
  __verif_assume(m + w + gap + WB <= W);
  int two = __verif_choice(2);     // one row, or two rows (the macros cover both)
  c.setCellWidth({4, w, WB}); c.setCellHeight({10, 20, 20}); c.setCellX({0, m, m + w + gap}); c.setCellY({0, 0, 0});
  c.setCellIsFixed({false, true, true}); c.setCellIsObstruction({true, true, true});
  c.setupRows(Rectangle(0, W, 0, two ? 20 : 10), 10);
  DensityGrid g = DensityGrid::fromIspdCircuit(c, 1.0f, 0.5f);     // bins of one cell height, margin 5 on each side of a segment
  __verif_cover("grid built");
  const int margin = 5;
  long long seg[3] = {m, gap, W - (m + w + gap + WB)};             // widths of the free segments
  long long per = 0;
  for (int k = 0; k < 3; ++k) if (seg[k] > 2 * margin) per += (seg[k] - 2 * margin) * 10;
  long long expect = per * (two ? 2 : 1);
  long long sum = 0;
  for (int i = 0; i < g.nbBinsX(); ++i) for (int j = 0; j < g.nbBinsY(); ++j) {
    VASSERT(g.binCapacity(i, j) >= 0, "no bin has a negative capacity");
    sum += g.binCapacity(i, j);
  }
  VASSERT(sum == expect && g.totalCapacity() == expect, "the bins account for the free row area after the side margin");
  __verif_cover("end");
}
#elif defined(H16B)
// HierarchicalDensityPlacement: arbitrary sequences of refine / coarsen / redistribution inside a bin group
#ifndef NOPS
#define NOPS 3
#endif
static void invariant(const HierarchicalDensityPlacement& h, const std::vector<int>& dem, long long cap0) {
  int n = (int)dem.size();
  h.check();   // the class's own assert()s are verification conditions
  long long cap = 0;
  for (int i = 0; i < h.nbBinsX(); ++i) for (int j = 0; j < h.nbBinsY(); ++j) cap += h.binCapacity(i, j);
  VASSERT(cap == cap0, "coarser views aggregate the capacity exactly");
  VASSERT(h.binLimitX(0) == h.placementArea().minX && h.binLimitX(h.nbBinsX()) == h.placementArea().maxX, "x bins of the current level tile the area");
  VASSERT(h.binLimitY(0) == h.placementArea().minY && h.binLimitY(h.nbBinsY()) == h.placementArea().maxY, "y bins of the current level tile the area");
  for (int c = 0; c < n; ++c) {
    int cnt = 0;
    for (int i = 0; i < h.nbBinsX(); ++i) for (int j = 0; j < h.nbBinsY(); ++j) {
      const std::vector<int>& bc = h.binCells(i, j);
      for (size_t k = 0; k < bc.size(); ++k) if (bc[k] == c) { ++cnt; VASSERT(h.cellBinX(c) == i && h.cellBinY(c) == j, "cell-to-bin map consistent with the bin contents"); }
    }
    VASSERT(cnt == (dem[c] > 0 ? 1 : 0), "a cell of non-zero area is in exactly one bin, a zero-area cell in none");
  }
}
extern "C" void harness() {
  int nbx = 1 + __verif_choice(4), nby = 1 + __verif_choice(2);
  DensityGrid g(5, Rectangle(0, 5 * nbx, 0, 5 * nby));
  VASSERT(g.nbBinsX() == nbx && g.nbBinsY() == nby, "grid has the requested number of bins");
  const int NCELL = 3;
  std::vector<int> dem;
  for (int c = 0; c < NCELL; ++c) { int d = __verif_nondet_int(0, 1000); dem.push_back(d); }
  HierarchicalDensityPlacement h(g, dem);
  long long cap0 = g.totalCapacity();
  invariant(h, dem, cap0);
  __verif_cover("built");
  for (int step = 0; step < NOPS; ++step) {
    int op = __verif_choice(5);
    if (op == 0) { if (h.levelX() < 1) return; h.refineX(); }
    else if (op == 1) { if (h.levelY() < 1) return; h.refineY(); }
    else if (op == 2) { if (h.levelX() + 1 >= h.nbLevelX()) return; h.coarsenX(); }
    else if (op == 3) { if (h.levelY() + 1 >= h.nbLevelY()) return; h.coarsenY(); }
    else {
      // move the cells of two x-adjacent bins: everything to the right one (what the rough legalizer's redistributions do: the union is kept)
      if (h.nbBinsX() < 2) return;
      int i = __verif_choice(h.nbBinsX() - 1), j = __verif_choice(h.nbBinsY());
      std::vector<int> all = h.binCells(i, j);
      for (size_t k = 0; k < h.binCells(i + 1, j).size(); ++k) all.push_back(h.binCells(i + 1, j)[k]);
      h.setBinCells(i, j, std::vector<int>()); h.setBinCells(i + 1, j, all);
    }
    invariant(h, dem, cap0);
  }
  __verif_cover("end");
}
#elif defined(H16S)
// H16S: spreadCoordX keeps every cell inside its bin (float kernel; linear error model, tolerance 2^-18 of the magnitude)
extern "C" void harness() {
  DensityGrid g(8, Rectangle(0, 16, 0, 8));
  enum { NCELL = 3 };
  std::vector<int> dem; std::vector<float> tgt;
#ifdef CONCDEM
  // concrete demand vectors (float arithmetic of the kernel then runs on concrete values), symbolic targets: the order of the
  // cells inside the bin, which is all the targets decide, is explored by the solver.  Includes macro-sized demands whose sum
  // passes 2^31 (each demand fits an int) and a zero-area cell.
  static const int DEMS[4][NCELL] = {{1500000000, 1500000000, 5}, {1, 2, 3}, {0, 7, 1 << 30}, {2000000000, 0, 2000000000}};
  int shape = __verif_choice(4);
  for (int c = 0; c < NCELL; ++c) dem.push_back(DEMS[shape][c]);
#else
  for (int c = 0; c < NCELL; ++c) { int d = __verif_nondet_int(0, 1 << 20); dem.push_back(d); }
#endif
  for (int c = 0; c < NCELL; ++c) { float t = __verif_nondet_float(-1.0e6f, 1.0e6f); tgt.push_back(t); }
  HierarchicalDensityPlacement h(g, dem);
  int lvl = __verif_choice(2);
  if (lvl) h.refineX();
  std::vector<float> xs = h.spreadCoordX(tgt);
  __verif_cover("spread");
  for (int c = 0; c < NCELL; ++c) {
    if (dem[c] == 0) continue;
    int bx = h.cellBinX(c);
    float lo = h.binLimitX(bx), hi = h.binLimitX(bx + 1);
    VASSERT(xs[c] >= lo - 0.001f && xs[c] <= hi + 0.001f, "the spread coordinate of a cell lies inside its bin (up to float rounding)");
  }
  __verif_cover("end");
}
#endif
#if defined(H16C) || defined(H16R)
// rough-legalization passes (DensityLegalizer::run / refine / improve) with every float value unconstrained: whatever the
// costs are, every cell of non-zero area stays in exactly one bin and the class's own invariants hold.
static void invariantL(const DensityLegalizer& h, const std::vector<int>& dem) {
  h.check();
  int n = (int)dem.size();
  for (int c = 0; c < n; ++c) {
    int cnt = 0;
    for (int i = 0; i < h.nbBinsX(); ++i) for (int j = 0; j < h.nbBinsY(); ++j) {
      const std::vector<int>& bc = h.binCells(i, j);
      for (size_t k = 0; k < bc.size(); ++k) if (bc[k] == c) { ++cnt; VASSERT(h.cellBinX(c) == i && h.cellBinY(c) == j, "cell-to-bin map consistent with the bin contents"); }
    }
    VASSERT(cnt == (dem[c] > 0 ? 1 : 0), "a cell of non-zero area is in exactly one bin, a zero-area cell in none");
  }
}
#if defined(H16C)
extern "C" void harness() {
  // 6 x 2 bins of 5 x 5; the middle 2 x 2 block has no capacity (hole in the rows)
  std::vector<Rectangle> regs; regs.push_back(Rectangle(0, 10, 0, 10)); regs.push_back(Rectangle(20, 30, 0, 10));
  DensityGrid g(5, regs);
  VASSERT(g.nbBinsX() == 6 && g.nbBinsY() == 2 && g.binCapacity(2, 0) == 0 && g.binCapacity(3, 1) == 0, "grid with a zero-capacity block");
  const int NCELL = 3;
  std::vector<int> dem;
  for (int c = 0; c < NCELL; ++c) { int d = (c == NCELL - 1) ? __verif_nondet_int(0, 30) : __verif_nondet_int(1, 30); dem.push_back(d); }
  DensityLegalizer::Parameters prm;
  int pset = __verif_choice(3);
  if (pset >= 1) { prm.squareReoptSize = 2; prm.squareReoptOverlap = 1; prm.lineReoptSize = 3; prm.lineReoptOverlap = 1; prm.diagReoptSize = 3; prm.diagReoptOverlap = 1; }
  if (pset == 2) prm.unidimensionalTransport = false;
  DensityLegalizer leg(g, dem, prm);
  std::vector<float> tx, ty;
  for (int c = 0; c < NCELL; ++c) { float a = __verif_nondet_float(-100.0f, 100.0f); float b = __verif_nondet_float(-100.0f, 100.0f); tx.push_back(a); ty.push_back(b); }
  leg.updateCellTargetX(tx); leg.updateCellTargetY(ty);
  invariantL(leg, dem);
  __verif_cover("built");
  __verif_havoc_int_range(0, 1 << 27);   // fixed-point costs and scaled positions are non-negative and bounded by construction
  int scen = __verif_choice(2);
  if (scen == 0) { leg.run(); invariantL(leg, dem); }
  else {
    // refine step by step, improving at every level (what runRefinement does), checking after each step
    while (leg.levelX() > 0 || leg.levelY() > 0) {
      leg.refine(); invariantL(leg, dem);
      leg.improve(); invariantL(leg, dem);
    }
    leg.improve(); invariantL(leg, dem);
  }
  VASSERT(leg.levelX() == 0 && leg.levelY() == 0, "the legalizer ends at the finest level");
  __verif_cover("end");
}
#endif
#endif
#if defined(H16R)
// one reoptimization step of the rough legalizer on an arbitrary group of bins (including groups without any capacity) from an
// arbitrary distribution of the cells: the union of the cells of the touched bins is redistributed, nothing is lost.
extern "C" void harness() {
  std::vector<Rectangle> regs; regs.push_back(Rectangle(0, 10, 0, 10)); regs.push_back(Rectangle(20, 30, 0, 10));
  DensityGrid g(5, regs);       // 6 x 2 bins; columns 2 and 3 have no capacity
  const int NCELL = 3;
  std::vector<int> dem;
  for (int c = 0; c < NCELL; ++c) { int d = __verif_nondet_int(1, 30); dem.push_back(d); }
  DensityLegalizer::Parameters prm;
  DensityLegalizer leg(g, dem, prm);
  std::vector<float> tx, ty;
  for (int c = 0; c < NCELL; ++c) { float a = __verif_nondet_float(-100.0f, 100.0f); float b = __verif_nondet_float(-100.0f, 100.0f); tx.push_back(a); ty.push_back(b); }
  leg.updateCellTargetX(tx); leg.updateCellTargetY(ty);
  leg.refineFully();
  // arbitrary distribution of the cells over a 3 x 2 window of bins starting at column x0
  int x0 = 1 + __verif_choice(2);     // windows 1..3 and 2..4: both contain the zero-capacity columns 2 and 3
  std::vector<std::vector<std::vector<int> > > put(3, std::vector<std::vector<int> >(2));
#ifdef OVERFULL
  // H16RO: every cell in the same bin of the window and more demand than the whole window can hold (capacity-increase path)
  __verif_assume((long long)dem[0] + dem[1] + dem[2] > 52);
  for (int c = 0; c < NCELL; ++c) put[x0 == 1 ? 0 : 2][0].push_back(c);
#else
  for (int c = 0; c < NCELL; ++c) { int bx = (c == 0) ? 1 : __verif_choice(3); int by = (c == 0) ? 0 : __verif_choice(2); put[bx][by].push_back(c); }
#endif
  for (int i = 0; i < leg.nbBinsX(); ++i) for (int j = 0; j < leg.nbBinsY(); ++j) leg.setBinCells(i, j, std::vector<int>());
  for (int bx = 0; bx < 3; ++bx) for (int by = 0; by < 2; ++by) leg.setBinCells(x0 + bx, by, put[bx][by]);
  invariantL(leg, dem);
  __verif_cover("distributed");
  __verif_havoc_int_range(0, 1 << 27);
  int shape = __verif_choice(3);
  std::vector<std::pair<int, int> > cand;
  if (shape == 0) { cand.push_back(std::make_pair(x0, 0)); cand.push_back(std::make_pair(x0 + 1, 0)); cand.push_back(std::make_pair(x0, 1)); cand.push_back(std::make_pair(x0 + 1, 1)); }   // square
  else if (shape == 1) { cand.push_back(std::make_pair(x0, 0)); cand.push_back(std::make_pair(x0 + 1, 0)); cand.push_back(std::make_pair(x0 + 2, 0)); }                                     // line
  else { cand.push_back(std::make_pair(x0, 1)); cand.push_back(std::make_pair(x0 + 1, 0)); cand.push_back(std::make_pair(x0 + 2, 1)); }                                                      // zig-zag
  leg.reoptimize(cand);
  invariantL(leg, dem);
  __verif_cover("end");
}
#endif
