// C11: legalizing an already legal single-row-height placement moves nothing.
#include "all_src.h"
#include "legal.h"
using namespace coloquinte;
#ifndef VLIM
#define VLIM (1 << 20)
#endif
#if defined(H11A)
// ordering kernel: two non-overlapping cells of one row keep their left-to-right order for every accepted parameter set
extern "C" void harness() {
  int x1 = __verif_nondet_int(-VLIM, VLIM); int w1 = __verif_nondet_int(1, VLIM); int x2 = __verif_nondet_int(-VLIM, VLIM); int w2 = __verif_nondet_int(1, VLIM);
  int y = __verif_nondet_int(-VLIM, VLIM); int h = __verif_nondet_int(1, VLIM);
  __verif_assume(x1 + w1 <= x2 && x2 + w2 <= VLIM);
  LegalizationParameters lp(1);
  int pset = __verif_choice(PSETS);
  if (pset == 1) lp.orderingWidth = 0.0;
  if (pset == 2) { float oy = __verif_nondet_float(-0.2f, 0.2f); lp.orderingY = oy; }
  if (pset == 3) lp.orderingWidth = 1.5;
  if (pset == 4) lp.orderingWidth = -1.0;
  if (pset == 5) lp.orderingWidth = 2.0;
  if (pset == 6) lp.orderingWidth = 1.0;
  if (pset == 7) lp.orderingWidth = 0.5;
  bool rejected = false;
  try { lp.check(); } catch (const std::runtime_error&) { rejected = true; }
  if (rejected) return;
  int swapIdx = __verif_choice(2);   // the left cell may have either index
  std::vector<Row> rows; rows.push_back(Row(-VLIM, VLIM, y, y + h, CellOrientation::N));
  std::vector<int> w = {swapIdx ? w2 : w1, swapIdx ? w1 : w2}, hh = {h, h}, x = {swapIdx ? x2 : x1, swapIdx ? x1 : x2}, yy = {y, y};
  LegalizerBase leg(rows, w, hh, {CellRowPolarity::ANY, CellRowPolarity::ANY}, x, yy, {CellOrientation::N, CellOrientation::N});
  std::vector<int> order = leg.computeCellOrder(1.0, lp.orderingWidth, lp.orderingY, lp.orderingHeight);
  VASSERT(order.size() == 2, "two cells ordered");
  VASSERT(order[0] == (swapIdx ? 1 : 0), "the legalization order keeps non-overlapping cells of a row left to right");
  __verif_cover("end");
}
#elif defined(H11C)
// H11C: the whole Legalizer::run (ordering with the parameters as run() passes them, Tetris pass, Abacus pass) on two legal,
// non-overlapping cells of one row, for every accepted parameter set: nothing moves.  (Float ordering keys: error model.)
extern "C" void harness() {
  int x1 = __verif_nondet_int(-VLIM, VLIM); int w1 = __verif_nondet_int(1, VLIM); int x2 = __verif_nondet_int(-VLIM, VLIM); int w2 = __verif_nondet_int(1, VLIM);
  const int y = 0, h = 10;
  __verif_assume(x1 + w1 <= x2 && x2 + w2 <= VLIM);
  ColoquinteParameters p(1);
  int pset = __verif_choice(PSETS);
  if (pset == 1) p.legalization.orderingWidth = 0.0;
  if (pset == 2) { float oy = __verif_nondet_float(-0.2f, 0.2f); p.legalization.orderingY = oy; }
  if (pset == 3) p.legalization.orderingWidth = 1.0;
  if (pset == 4) p.legalization.orderingWidth = 0.5;
  if (pset == 5) { p.legalization.orderingWidth = 1.0; p.legalization.orderingY = -0.2; }
  if (pset == 6) { p.legalization.orderingWidth = 0.0; p.legalization.orderingY = 0.2; }
  bool rejected = false;
  try { p.legalization.check(); } catch (const std::runtime_error&) { rejected = true; }
  if (rejected) return;      // (the float -0.2f lies just outside the accepted range)
  int swapIdx = __verif_choice(2);   // the left cell may have either index
  std::vector<Row> rows; rows.push_back(Row(-VLIM, VLIM, y, y + h, CellOrientation::N));
  std::vector<int> w = {swapIdx ? w2 : w1, swapIdx ? w1 : w2}, hh = {h, h}, x = {swapIdx ? x2 : x1, swapIdx ? x1 : x2}, yy = {y, y};
  Legalizer leg(rows, w, hh, {CellRowPolarity::ANY, CellRowPolarity::ANY}, x, yy, {CellOrientation::N, CellOrientation::N});
  bool threw = false;
  try { leg.run(p); } catch (const std::runtime_error&) { threw = true; }
  VASSERT(!threw, "legalizing a legal placement does not fail");
  for (int i = 0; i < 2; ++i) {
    VASSERT(leg.cellLegalX()[i] == x[i] && leg.cellLegalY()[i] == yy[i], "legalizing a legal placement moves nothing");
  }
  __verif_cover("end");
}
#else
// H11B: Abacus on a legal placement, cells presented left to right within each row: nothing moves
#ifndef NC
#define NC 3
#endif
extern "C" void harness() {
  const int RH = 10;
  // up to 3 segments: row 0 split in two by an obstruction, row 1 whole
  int a0 = __verif_nondet_int(-VLIM, VLIM); int a1 = __verif_nondet_int(-VLIM, VLIM); int b0 = __verif_nondet_int(-VLIM, VLIM); int b1 = __verif_nondet_int(-VLIM, VLIM);
  int c0 = __verif_nondet_int(-VLIM, VLIM); int c1 = __verif_nondet_int(-VLIM, VLIM);
  __verif_assume(a0 < a1 && a1 <= b0 && b0 < b1 && c0 < c1);
  std::vector<Row> rows; rows.push_back(Row(a0, a1, 0, RH, CellOrientation::N)); rows.push_back(Row(b0, b1, 0, RH, CellOrientation::N)); rows.push_back(Row(c0, c1, RH, 2 * RH, CellOrientation::FS));
  std::vector<int> w, h(NC, RH), x, y; std::vector<CellRowPolarity> pol(NC, CellRowPolarity::ANY); std::vector<CellOrientation> ori(NC, CellOrientation::N);
  int seg[NC];
  for (int i = 0; i < NC; ++i) {
    seg[i] = __verif_choice(3);
    int wi = __verif_nondet_int(1, VLIM); int xi = __verif_nondet_int(-VLIM, VLIM);
    __verif_assume(xi >= rows[seg[i]].minX && xi + wi <= rows[seg[i]].maxX);
    // presented left to right within each row (the order computeCellOrder yields, H11A), no overlap
    for (int j = 0; j < i; ++j) if (rows[seg[j]].minY == rows[seg[i]].minY) __verif_assume(x[j] + w[j] <= xi);
    w.push_back(wi); x.push_back(xi); y.push_back(rows[seg[i]].minY);
  }
  AbacusLegalizer leg(rows, w, h, pol, x, y, ori);
  leg.run();
  for (int i = 0; i < NC; ++i) {
    VASSERT(leg.isPlaced(i), "every cell of a legal placement is placed");
    VASSERT(leg.cellLegalX()[i] == x[i] && leg.cellLegalY()[i] == y[i], "legalizing a legal placement moves nothing");
    __verif_observe(leg.cellLegalX()[i]);
  }
  __verif_cover("end");
}
#endif
