// H03O: frame condition of legalize / placeDetailed when fixed cells are interleaved with movable ones in index order
// (several consecutive fixed cells before a movable one): the export loops must keep the correspondence.
#include "all_src.h"
#include "legal.h"
using namespace coloquinte;
extern "C" void harness() {
  const int NC = 5;
  Circuit c(NC);
  // index order: fixed, fixed, movable, fixed, movable  /  movable, fixed, fixed, movable, fixed
  int layout = __verif_choice(2);
  std::vector<bool> fx(NC, false);
  if (layout == 0) { fx[0] = fx[1] = fx[3] = true; } else { fx[1] = fx[2] = fx[4] = true; }
  std::vector<int> w = {5, 7, 4, 9, 6}, h(NC, 10), x, y;
  for (int i = 0; i < NC; ++i) { int xi = __verif_nondet_int(-20, 120); int yi = fx[i] ? 40 + 12 * i : __verif_choice(2) * 10; x.push_back(xi); y.push_back(yi); }
  c.setCellWidth(w); c.setCellHeight(h); c.setCellX(x); c.setCellY(y); c.setCellIsFixed(fx);
  c.setCellIsObstruction(std::vector<bool>(NC, false));
  std::vector<CellOrientation> orient;
  for (int i = 0; i < NC; ++i) orient.push_back(fx[i] ? (CellOrientation)(1 + (i % 3) * 2) : CellOrientation::N);   // fixed cells: S, E, FS ...; movable cells: N
  c.setCellOrientation(orient);
  c.setupRows(Rectangle(0, 60, 0, 20), 10);
  c.addNet({0, 2, 4}, {1, 2, 3}, {3, 4, 5});
  ColoquinteParameters p(1);
  p.detailed.nbPasses = 1; p.detailed.shiftMaxNbCells = 0; p.detailed.reorderingMaxNbCells = 0;
  int stage = __verif_choice(2);
  bool threw = false;
  try { if (stage == 0) c.legalize(p); else c.placeDetailed(p); } catch (const std::runtime_error&) { threw = true; }
  VASSERT(!threw, "placement succeeds on a sparse circuit");
  for (int i = 0; i < NC; ++i) {
    if (fx[i]) VASSERT(c.x(i) == x[i] && c.y(i) == y[i] && c.orientation(i) == orient[i], "fixed cells keep position and orientation");
    VASSERT(c.cellWidth()[i] == w[i] && c.cellHeight()[i] == 10 && c.isFixed(i) == fx[i], "sizes and flags untouched");
  }
  vlegal::assertLegal(c, orient);
  for (int i = 0; i < NC; ++i) { __verif_observe(c.x(i)); __verif_observe(c.y(i)); }
  __verif_cover("end");
}
