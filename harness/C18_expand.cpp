// C18: cell expansion touches only widths of movable cells; congestion-map factors.
#include "all_src.h"
using namespace coloquinte;
static Circuit makeCircuit(int x2, int y2) {
  Circuit c(3);    // cells 0,1 movable, 2 fixed
  c.setCellWidth({6, 4, 8}); c.setCellHeight({10, 10, 20}); c.setCellX({3, 20, x2}); c.setCellY({0, 10, y2});
  c.setCellIsFixed({false, false, true});
  c.setupRows(Rectangle(0, 100, 0, 40), 10);
  c.addNet({0, 1, 2}, {1, 2, 3}, {3, 4, 5});
  return c;
}
#if defined(H18F)
extern "C" void harness() {
  int x2 = __verif_nondet_int(-20, 120); int y2 = __verif_nondet_int(-20, 60);
  Circuit c = makeCircuit(x2, y2);
  int which = __verif_choice(2);
  double target = __verif_nondet_double(0.01, 0.99); double margin = __verif_nondet_double(0.0, 3.0); double cap = __verif_nondet_double(0.01, 1.0);
  // everything except the width array is write-protected; inside it, the fixed cell's width too
  __verif_protect(&c, (unsigned long)((char*)&c.cellWidth_ - (char*)&c));
  __verif_protect(&c.cellHeight_, (unsigned long)((char*)&c.isInUse_ - (char*)&c.cellHeight_));
  __verif_protect(&c.cellWidth_[2], 4);
  bool threw = false;
  try {
    if (which == 0) c.expandCellsToDensity(target, margin, cap);
    else { float f0 = 1.0f + 0.5f * __verif_choice(3); float f1 = 1.0f + 1.5f * __verif_choice(2); c.expandCellsByFactor({f0, f1, 1.0f}, target, margin); }
  } catch (const std::runtime_error&) { threw = true; }
  VASSERT(!threw, "expansion does not raise an error on valid arguments");
  VASSERT(c.cellWidth()[2] == 8 && c.cellHeight()[0] == 10 && c.cellHeight()[2] == 20 && c.x(2) == x2 && c.y(0) == 0, "only the widths of movable cells may change");
  VASSERT(c.nbNets() == 1 && c.nbRows() == 4 && c.isFixed(2) && !c.isFixed(0), "nets, rows and flags untouched");
  __verif_cover("end");
}
#else
// H18C: computeCellExpansion: 1 for fixed or uncongested cells, otherwise the largest factor among the congested regions met
extern "C" void harness() {
  int x2 = __verif_nondet_int(-20, 120); int y2 = __verif_nondet_int(-20, 60);
  Circuit c = makeCircuit(x2, y2);
  const int NR = 2;
  std::vector<std::pair<Rectangle, float> > cmap;
  float cong[NR]; Rectangle reg[NR];
  for (int r = 0; r < NR; ++r) {
    int a = __verif_nondet_int(-20, 120); int b = __verif_nondet_int(-20, 120); int d = __verif_nondet_int(-20, 60); int e = __verif_nondet_int(-20, 60);
    float g = __verif_nondet_float(0.0f, 8.0f);
    reg[r] = Rectangle(a, b, d, e); cong[r] = g; cmap.push_back(std::make_pair(reg[r], g));
  }
  float fixedPenalty = 0.25f, penaltyFactor = 2.0f;
  std::vector<float> ex = c.computeCellExpansion(cmap, fixedPenalty, penaltyFactor);
  VASSERT(ex.size() == 3, "one factor per cell");
  VASSERT(ex[2] == 1.0f, "fixed cells are not expanded");
  for (int i = 0; i < 2; ++i) {
    Rectangle pl = c.placement(i);
    bool any = false; bool isOne = false;
    for (int r = 0; r < NR; ++r) {
      bool hit = cong[r] > 1.0f && reg[r].minX < pl.maxX && pl.minX < reg[r].maxX && reg[r].minY < pl.maxY && pl.minY < reg[r].maxY;
      if (hit) {
        any = true;
        float f = (cong[r] - 1.0f) * penaltyFactor + fixedPenalty + 1.0;
        VASSERT(ex[i] >= f, "the factor is at least the factor of every congested region the cell intersects");
        if (ex[i] == f) isOne = true;
      }
    }
    if (!any) VASSERT(ex[i] == 1.0f, "uncongested cells are not expanded");
    else VASSERT(isOne, "the factor is the factor of one of the congested regions the cell intersects");
  }
  __verif_cover("end");
}
#endif
