// C18: cell expansion touches only widths of movable cells; congestion-map factors.
#include "all_src.h"
using namespace coloquinte;
static Circuit makeCircuit(int x2, int y2) {
  Circuit c(3);    // cells 0,1 movable, 2 fixed
  c.setCellWidth({6, 4, 8}); c.setCellHeight({10, 10, 20}); c.setCellX({3, 20, x2}); c.setCellY({0, 10, y2});
  c.setCellIsFixed({false, false, true});
  c.setupRows(Rectangle(0, 100, 0, 40), 10);
  c.addNet({0, 1, 2}, {1, 2, 3}, {3, 4, 5});
  return c;
}
#if defined(H18F)
extern "C" void harness() {
  int x2 = __verif_nondet_int(-20, 120); int y2 = __verif_nondet_int(-20, 60);
  Circuit c = makeCircuit(x2, y2);
  int which = __verif_choice(2);
  double target = __verif_nondet_double(0.01, 0.99); double margin = __verif_nondet_double(0.0, 3.0); double cap = __verif_nondet_double(0.01, 1.0);
  // everything except the width array is write-protected; inside it, the fixed cell's width too
  __verif_protect(&c, (unsigned long)((char*)&c.cellWidth_ - (char*)&c));
  __verif_protect(&c.cellHeight_, (unsigned long)((char*)&c.isInUse_ - (char*)&c.cellHeight_));
  __verif_protect(&c.cellWidth_[2], 4);
  bool threw = false;
  try {
    if (which == 0) c.expandCellsToDensity(target, margin, cap);
    else { float f0 = 1.0f + 0.5f * __verif_choice(3); float f1 = 1.0f + 1.5f * __verif_choice(2); c.expandCellsByFactor({f0, f1, 1.0f}, target, margin); }
  } catch (const std::runtime_error&) { threw = true; }
  VASSERT(!threw, "expansion does not raise an error on valid arguments");
  VASSERT(c.cellWidth()[2] == 8 && c.cellHeight()[0] == 10 && c.cellHeight()[2] == 20 && c.x(2) == x2 && c.y(0) == 0, "only the widths of movable cells may change");
  VASSERT(c.nbNets() == 1 && c.nbRows() == 4 && c.isFixed(2) && !c.isFixed(0), "nets, rows and flags untouched");
  __verif_cover("end");
}
#elif defined(H18D)
// H18D: expandCellsToDensity, numeric claims (linear floating-point error model): movable cells of MIXED heights with concrete sizes,
// symbolic target density.  The movable area afterwards is at most target x available area (beyond a 1e-6 relative slack for the
// double arithmetic), is within one cell height of it when the per-cell cap is not hit, and no cell got narrower.
extern "C" void harness() {
  static const int W[3][3] = {{6, 4, 5}, {3, 7, 2}, {9, 1, 4}};
  static const int H[3][3] = {{10, 20, 10}, {20, 10, 10}, {10, 10, 30}};
  int shape = __verif_choice(3);
  int capped = __verif_choice(2);
  Circuit c(4);    // cells 0..2 movable with mixed heights, 3 fixed
  c.setCellWidth({W[shape][0], W[shape][1], W[shape][2], 8}); c.setCellHeight({H[shape][0], H[shape][1], H[shape][2], 20});
  c.setCellX({3, 20, 40, -50}); c.setCellY({0, 10, 0, -50});
  c.setCellIsFixed({false, false, false, true});
  c.setupRows(Rectangle(0, 100, 0, 40), 10);
  // with a side margin of half a row height per side: each row loses 10 units of width, and a sliver row narrower than the two
  // margins (a fragment between macros) contributes nothing - not a negative area
  int marg = __verif_choice(2);
  if (marg) { std::vector<Row> rs = c.rows(); rs.push_back(Row(200, 204, 0, 10, CellOrientation::N)); c.setRows(rs); }
  const double rowArea = marg ? 3600.0 : 4000.0;
  long long cellArea = 0; int hmax = 0;
  for (int i = 0; i < 3; ++i) { cellArea += (long long)W[shape][i] * H[shape][i]; if (H[shape][i] > hmax) hmax = H[shape][i]; }
  double density = cellArea / rowArea;
  double target = __verif_nondet_double(0.0, 1.0);
  __verif_assume(target >= density * 1.001 && target <= 0.95);     // stated bound: the target is above the current density by at least 0.1 %
  double cap = capped ? 0.12 : 1.0;                                // maximum width 12 (hit by the wider cells for large targets) or 100 (never hit)
  c.expandCellsToDensity(target, marg ? 0.5 : 0.0, cap);
  long long after = 0;
  for (int i = 0; i < 3; ++i) {
    int nw = c.cellWidth()[i];
    if (cap * 100.0 >= W[shape][i]) VASSERT(nw >= W[shape][i], "no movable cell gets narrower when the cap is not below its width");
    after += (long long)nw * H[shape][i];
    __verif_observe(nw);
  }
  double goal = target * rowArea;
  VASSERT((double)after <= goal * 1.000001, "utilisation does not exceed the target beyond rounding");
  bool capHit = false;
  for (int i = 0; i < 3; ++i) if (W[shape][i] * (target / density) > cap * 100.0 - 0.001) capHit = true;
  if (!capHit) VASSERT((double)after >= goal * 0.999999 - hmax, "the movable area is within one cell height of target times available area when the cap is not hit");
  VASSERT(c.cellWidth()[3] == 8, "fixed cells keep their width");
  __verif_cover("end");
}
#elif defined(H18E)
// H18E: expandCellsByFactor, numeric claims (linear floating-point error model): concrete mixed-height cells and factors, symbolic
// density cap; plus one wide cell of symbolic width with factor 1 (no cell gets narrower).
extern "C" void harness() {
  int wide = __verif_choice(2);
  if (wide) {
    Circuit c(2);
    int w = __verif_nondet_int(1, 1 << 26);
    c.setCellWidth({w, 8}); c.setCellHeight({10, 10}); c.setCellX({0, -50}); c.setCellY({0, -50}); c.setCellIsFixed({false, true});
    c.setupRows(Rectangle(0, 1 << 28, 0, 40), 10);
    float f = __verif_choice(2) ? 1.5f : 1.0f;
    c.expandCellsByFactor({f, 1.0f}, 0.9, 0.0);
    VASSERT(c.cellWidth()[0] >= w, "no movable cell gets narrower");
    __verif_cover("end");
    return;
  }
  static const int W[2][3] = {{6, 4, 5}, {3, 7, 2}};
  static const int H[2][3] = {{10, 20, 10}, {20, 10, 10}};
  int shape = __verif_choice(2);
  Circuit c(4);
  c.setCellWidth({W[shape][0], W[shape][1], W[shape][2], 8}); c.setCellHeight({H[shape][0], H[shape][1], H[shape][2], 20});
  c.setCellX({3, 20, 40, -50}); c.setCellY({0, 10, 0, -50});
  c.setCellIsFixed({false, false, false, true});
  c.setupRows(Rectangle(0, 100, 0, 40), 10);
  const double rowArea = 4000.0;
  int k0 = __verif_choice(3), k1 = __verif_choice(2);
  float f0 = 1.0f + 0.5f * k0, f1 = 1.0f + 1.5f * k1, f2 = 1.25f;
  long long cellArea = 0;
  for (int i = 0; i < 3; ++i) cellArea += (long long)W[shape][i] * H[shape][i];
  double density = cellArea / rowArea;
  double cap = __verif_nondet_double(0.0, 1.0);
  __verif_assume(cap >= density * 1.001 && cap <= 0.95);          // stated bound: the cap is above the current density by at least 0.1 %
  c.expandCellsByFactor({f0, f1, f2, 1.0f}, cap, 0.0);
  long long after = 0;
  for (int i = 0; i < 3; ++i) {
    int nw = c.cellWidth()[i];
    VASSERT(nw >= W[shape][i], "no movable cell gets narrower");
    after += (long long)nw * H[shape][i];
    __verif_observe(nw);
  }
  VASSERT((double)after <= cap * rowArea * 1.000001 + 3.0, "utilisation does not exceed the cap beyond rounding");
  VASSERT(c.cellWidth()[3] == 8, "fixed cells keep their width");
  __verif_cover("end");
}
#else
// H18C: computeCellExpansion: 1 for fixed or uncongested cells, otherwise the largest factor among the congested regions met
extern "C" void harness() {
  int x2 = __verif_nondet_int(-20, 120); int y2 = __verif_nondet_int(-20, 60);
  Circuit c = makeCircuit(x2, y2);
  const int NR = 2;
  std::vector<std::pair<Rectangle, float> > cmap;
  float cong[NR]; Rectangle reg[NR];
  for (int r = 0; r < NR; ++r) {
    int a = __verif_nondet_int(-20, 120); int b = __verif_nondet_int(-20, 120); int d = __verif_nondet_int(-20, 60); int e = __verif_nondet_int(-20, 60);
#ifdef CONGCHOICES
    static const float GV[3] = {0.75f, 1.5f, 2.25f};      // concrete congestion values (uncongested, congested, more congested):
    float g = GV[__verif_choice(CONGCHOICES)];            // the geometry (which regions a cell meets) stays symbolic
#else
    float g = __verif_nondet_float(0.0f, 8.0f);
#endif
    reg[r] = Rectangle(a, b, d, e); cong[r] = g; cmap.push_back(std::make_pair(reg[r], g));
  }
  float fixedPenalty = 0.25f, penaltyFactor = 2.0f;
  std::vector<float> ex = c.computeCellExpansion(cmap, fixedPenalty, penaltyFactor);
  VASSERT(ex.size() == 3, "one factor per cell");
  VASSERT(ex[2] == 1.0f, "fixed cells are not expanded");
  for (int i = 0; i < 2; ++i) {
    Rectangle pl = c.placement(i);
    bool any = false; bool isOne = false;
    for (int r = 0; r < NR; ++r) {
      bool hit = cong[r] > 1.0f && reg[r].minX < pl.maxX && pl.minX < reg[r].maxX && reg[r].minY < pl.maxY && pl.minY < reg[r].maxY;
      if (hit) {
        any = true;
        float f = (cong[r] - 1.0f) * penaltyFactor + fixedPenalty + 1.0;
        VASSERT(ex[i] >= f, "the factor is at least the factor of every congested region the cell intersects");
        if (ex[i] == f) isOne = true;
      }
    }
    if (!any) VASSERT(ex[i] == 1.0f, "uncongested cells are not expanded");
    else VASSERT(isOne, "the factor is the factor of one of the congested regions the cell intersects");
  }
  __verif_cover("end");
}
#endif
