// H06C: the returned global placement is the documented blend of the last lower-bound and upper-bound placements, converted
// from cell centre to lower-left corner with rounding; the float->int conversion cannot overflow for coordinates below 2^23.
#include "all_src.h"
using namespace coloquinte;
extern "C" void harness() {
  float lb = __verif_nondet_float(-8000000.0f, 8000000.0f); float ub = __verif_nondet_float(-8000000.0f, 8000000.0f);
  int wsel = __verif_choice(6);
  float w = wsel == 0 ? 0.0f : (wsel == 1 ? 1.0f : (wsel == 2 ? 0.99f : (wsel == 3 ? 0.5f : (wsel == 4 ? 1.5f : -0.5f))));   // the check accepts -0.5 .. 1.5
  std::vector<float> r = blendPlacement(std::vector<float>(1, lb), std::vector<float>(1, ub), w);
  VASSERT(r.size() == 1, "one coordinate per cell");
  if (wsel == 0) VASSERT(r[0] == lb, "blending 0 returns the lower-bound placement exactly");
  else if (wsel == 1) VASSERT(r[0] == ub, "blending 1 returns the upper-bound placement exactly");
  else {
    double ideal = (1.0 - (double)w) * (double)lb + (double)w * (double)ub;
    VASSERT((double)r[0] - ideal <= 4.0 && ideal - (double)r[0] <= 4.0, "the blend is (1-w)*LB + w*UB up to float rounding");
  }
  Circuit c(1);
  int cw = __verif_nondet_int(0, 4096); int ch = __verif_nondet_int(0, 4096);
  c.setCellWidth({cw}); c.setCellHeight({ch});
  int osel = __verif_choice(3);                       // N, W (turned), FE (turned and flipped): the centre refers to the PLACED size
  CellOrientation o = osel == 0 ? CellOrientation::N : (osel == 1 ? CellOrientation::W : CellOrientation::FE);
  c.setCellOrientation({o});
  int pw = osel == 0 ? cw : ch, ph = osel == 0 ? ch : cw;
  float y = __verif_nondet_float(-8000000.0f, 8000000.0f);
  GlobalPlacer::exportPlacement(c, r, std::vector<float>(1, y));
  double wantX = (double)r[0] - 0.5 * pw, wantY = (double)y - 0.5 * ph;
  VASSERT((double)c.x(0) - wantX <= 1.5 && wantX - (double)c.x(0) <= 1.5, "exported x is the blend minus half the placed width, rounded");
  VASSERT((double)c.y(0) - wantY <= 1.5 && wantY - (double)c.y(0) <= 1.5, "exported y is the coordinate minus half the placed height, rounded");
  VASSERT(c.placedWidth(0) == pw && c.placedHeight(0) == ph, "placed size follows the orientation");
  __verif_cover("end");
}
