// H03G / H06E: Circuit::placeGlobal end to end on a tiny circuit (Eigen contract, FP havoc): frame condition (C03), callback
// protocol, no exception (C06), no UB in the integer skeleton (C07), async footprints (C08).
#include "all_src.h"
using namespace coloquinte;
struct Ctx { Circuit* c; int calls; int lb; int ub; };
extern "C" void harness() {
  const int NC = 3;       // cells 0,1 movable, cell 2 fixed
  Circuit c(NC);
  int x0 = 12, y0 = 33, x1 = 70, y1 = -5;   // initial positions of movable cells are irrelevant to global placement (they are overwritten)
  int fxx = __verif_nondet_int(-50, 150); int fxy = __verif_nondet_int(-50, 90);
  c.setCellWidth({6, 4, 8}); c.setCellHeight({10, 10, 20}); c.setCellX({x0, x1, fxx}); c.setCellY({y0, y1, fxy});
  std::vector<bool> fixed = {false, false, true}; c.setCellIsFixed(fixed);
  std::vector<bool> obs = {true, true, __verif_choice(2) != 0}; c.setCellIsObstruction(obs);
  c.setCellOrientation({CellOrientation::N, CellOrientation::FS, CellOrientation::S});
  c.setupRows(Rectangle(0, 100, 0, 40), 10);
  c.addNet({0, 1}, {1, 2}, {3, 4}, 1.0f);
  c.addNet({0, 2, 1}, {0, 3, 1}, {5, 2, 0}, 2.0f);
  c.addNet({1}, {2}, {3}, 1.0f);           // a dangling net: one pin, on a movable cell (nets of any degree are in the domain)
  ColoquinteParameters p(1);
#ifdef INITCH
  p.global.nbInitialSteps = __verif_choice(INITCH);   // with or without initial lower-bound steps (must stay below the maximum)
  p.global.maxNbSteps = MAXSTEPS + p.global.nbInitialSteps;
#else
  p.global.maxNbSteps = MAXSTEPS; p.global.nbInitialSteps = 0;
#endif
#ifdef PSETS
  int pset = __verif_choice(PSETS);
  if (pset >= 1) p.global.roughLegalization.binSize = 2.0;     // 5 x 2 bins instead of 2 x 1
  if (pset == 1) { p.global.roughLegalization.lineReoptSize = 3; p.global.roughLegalization.lineReoptOverlap = 2; p.global.roughLegalization.diagReoptSize = 2; p.global.roughLegalization.diagReoptOverlap = 1; }
  if (pset == 2) { p.global.roughLegalization.squareReoptSize = 3; p.global.roughLegalization.squareReoptOverlap = 2; p.global.roughLegalization.unidimensionalTransport = false; }
  bool rejected = false;
  try { p.check(); } catch (const std::runtime_error&) { rejected = true; }
  if (rejected) return;
#endif
  Ctx ctx; ctx.c = &c; ctx.calls = 0; ctx.lb = 0; ctx.ub = 0;
  Ctx* cp = &ctx;
  PlacementCallback cb = [cp](PlacementStep s) { cp->calls++; if (s == PlacementStep::LowerBound) cp->lb++; if (s == PlacementStep::UpperBound) cp->ub++; };
  // frame: fixed cell position/orientation, all sizes, flags, polarities, nets, rows are write-protected; so are all orientations
  __verif_protect(&c.cellX_[2], 4); __verif_protect(&c.cellY_[2], 4);
  __verif_protect(&c.cellOrientation_, sizeof(c.cellOrientation_));
  __verif_protect(&c.cellWidth_, sizeof(c.cellWidth_)); __verif_protect(&c.cellHeight_, sizeof(c.cellHeight_));
  __verif_protect(&c.cellIsFixed_, sizeof(c.cellIsFixed_)); __verif_protect(&c.cellIsObstruction_, sizeof(c.cellIsObstruction_));
  __verif_protect(&c.cellRowPolarity_, sizeof(c.cellRowPolarity_)); __verif_protect(&c.rows_, sizeof(c.rows_));
  __verif_protect(&c.netLimits_, sizeof(c.netLimits_)); __verif_protect(&c.netWeights_, sizeof(c.netWeights_)); __verif_protect(&c.pinCells_, sizeof(c.pinCells_));
  __verif_protect(&c.pinXOffsets_, sizeof(c.pinXOffsets_)); __verif_protect(&c.pinYOffsets_, sizeof(c.pinYOffsets_));
  bool threw = false;
  try { c.placeGlobal(p, cb); } catch (const std::runtime_error&) { threw = true; }
  __verif_cover("placeGlobal ended");
  VASSERT(!threw, "global placement completes without raising an error");
  VASSERT(c.x(2) == fxx && c.y(2) == fxy && c.orientation(2) == CellOrientation::S, "fixed cell keeps position and orientation");
  VASSERT(c.orientation(0) == CellOrientation::N && c.orientation(1) == CellOrientation::FS, "global placement leaves every orientation unchanged");
  VASSERT(c.cellWidth()[0] == 6 && c.cellWidth()[1] == 4 && c.cellWidth()[2] == 8 && c.cellHeight()[2] == 20, "cell sizes untouched");
  VASSERT(c.nbNets() == 3 && c.netWeight(1) == 2.0f && c.pinCell(1, 1) == 2 && c.nbRows() == 4, "nets and rows untouched");
  VASSERT(ctx.lb >= 1 && ctx.ub >= 1, "lower-bound and upper-bound callbacks were issued");
  __verif_cover("end");
}
