// H02A: one feasible swap/insert on DetailedPlacement from an ARBITRARY legal placement (real constructor) keeps it legal.
// By induction over operations this covers every sequence of optimiser moves on the row data structure.
#include "all_src.h"
#include "legal.h"
using namespace coloquinte;
#ifndef NCELLS
#define NCELLS 3
#endif
extern "C" void harness() {
  // two row segments: same y (split row) or stacked
  int stacked = __verif_choice(2);
  int a = __verif_nondet_int(4, 40);            // R0 = [0,a]
  int b0 = __verif_nondet_int(-10, 60); int b1 = __verif_nondet_int(-10, 80);
  __verif_assume(b0 + 4 <= b1);
  if (!stacked) __verif_assume(b0 >= a);        // disjoint segments on the same y
  CellOrientation o0 = CellOrientation::N;
  CellOrientation o1 = stacked ? (__verif_choice(2) ? CellOrientation::FS : CellOrientation::N) : CellOrientation::N;
  std::vector<Row> rows;
  rows.push_back(Row(0, a, 0, 10, o0)); rows.push_back(Row(b0, b1, stacked ? 10 : 0, stacked ? 20 : 10, o1));
  std::vector<int> w, x, y, idx; std::vector<CellOrientation> ori; std::vector<CellRowPolarity> pol;
  int crow[NCELLS];
  for (int i = 0; i < NCELLS; ++i) {
    int ignored = (i == NCELLS - 1) ? __verif_choice(2) : 0;   // last cell may be an ignored (fixed / multi-row) cell
    crow[i] = __verif_choice(2);
    int wi = __verif_nondet_int(1, 6); int xi = __verif_nondet_int(-10, 80);
    int pi = (i == 0) ? __verif_choice(5) : 0;
    const Row& r = rows[crow[i]];
    if (!ignored) __verif_assume(xi >= r.minX && xi + wi <= r.maxX);
    for (int j = 0; j < i; ++j) if (crow[j] == crow[i] && w[j] != -1 && !ignored) __verif_assume(xi + wi <= x[j] || x[j] + w[j] <= xi);
    int want = vlegal::prescribed((CellRowPolarity)pi, r.orientation, CellOrientation::N);
    if (!ignored) __verif_assume(want != 8);       // the initial placement is legal, so the cell is on a row its polarity allows
    w.push_back(ignored ? -1 : wi); x.push_back(xi); y.push_back(r.minY); idx.push_back(i);
    pol.push_back((CellRowPolarity)pi); ori.push_back((CellOrientation)(ignored ? 0 : want));
  }
  bool threw = false;
  DetailedPlacement* plp = nullptr;
  alignas(8) char buf[sizeof(DetailedPlacement)];
  try { plp = new (buf) DetailedPlacement(rows, w, x, y, ori, pol, idx); } catch (const std::runtime_error&) { threw = true; }
  VASSERT(!threw, "the constructor accepts every legal placement");
  if (threw) return;
  DetailedPlacement& pl = *plp;
  __verif_cover("constructed");
  int op = __verif_choice(2);
  bool done = false;
  try {
    if (op == 0) {
      int c1 = __verif_choice(NCELLS), c2 = __verif_choice(NCELLS);
      if (pl.isIgnored(c1) || pl.isIgnored(c2)) return;
      if (!pl.canSwap(c1, c2)) return;
      pl.swap(c1, c2); done = true;
      __verif_cover("swapped");
    } else {
      int c = __verif_choice(NCELLS), row = __verif_choice(2), pred = __verif_choice(NCELLS + 1) - 1;
      if (pl.isIgnored(c)) return;
      if (pred != -1 && (pl.isIgnored(pred) || pl.cellRow(pred) != row)) return;
      if (!pl.canInsert(c, row, pred)) return;
      pl.insert(c, row, pred); done = true;
      __verif_cover("inserted");
    }
    pl.check();
  } catch (const std::runtime_error&) { threw = true; }
  VASSERT(!threw, "a move accepted by canSwap/canInsert succeeds and the repository's own check() passes afterwards");
  // the stronger invariant, stated directly
  for (int i = 0; i < NCELLS; ++i) {
    if (pl.isIgnored(i)) { VASSERT(pl.cellX(i) == x[i] && pl.cellY(i) == y[i] && !pl.isPlaced(i), "ignored cells are untouched"); continue; }
    int r = pl.cellRow(i);
    VASSERT(r >= 0 && r < 2, "cell is on a row");
    VASSERT(pl.cellWidth(i) == w[i], "width unchanged");
    VASSERT(pl.cellY(i) == pl.rows()[r].minY, "y is the row's y");
    VASSERT(pl.cellX(i) >= pl.rows()[r].minX && pl.cellX(i) + w[i] <= pl.rows()[r].maxX, "cell inside its row segment");
    for (int j = 0; j < i; ++j) if (!pl.isIgnored(j) && pl.cellRow(j) == r) VASSERT(pl.cellX(i) + w[i] <= pl.cellX(j) || pl.cellX(j) + w[j] <= pl.cellX(i), "no overlap inside a row");
    int want = vlegal::prescribed(pol[i], pl.rows()[r].orientation, ori[i]);
    VASSERT((int)pl.cellOrientation(i) != 8 && (int)pl.cellOrientation(i) != 9, "no INVALID orientation is produced");
    VASSERT((int)pl.cellOrientation(i) == want, "orientation is the one the polarity prescribes for the row");
    __verif_observe(pl.cellX(i)); __verif_observe(pl.cellY(i));
  }
  __verif_cover("end");
}
