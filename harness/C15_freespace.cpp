// H15a: Row::freespace == row minus every column touched by an obstacle (pointwise, for an arbitrary symbolic column).
// H15b: Circuit::computeRows passes exactly extra obstacles + placement() of cells that are fixed and obstructions.
#include "verif_std.h"
#define private public
#include "coloquinte.cpp"
#include "parameters.cpp"
#undef private
using namespace coloquinte;
#ifndef NOBS
#define NOBS 1
#endif
#ifndef MAXOBS
#define MAXOBS 2
#endif
#ifndef LIM
#define LIM (1 << 22)
#endif
static bool blocks(const Rectangle& o, const Row& r, int q) {
  return o.minX < o.maxX && o.minY < o.maxY && o.minX <= q && q < o.maxX && o.minY < r.maxY && o.maxY > r.minY;
}
#ifdef H15A
extern "C" void harness() {
  int x0 = __verif_nondet_int(-LIM, LIM), x1 = __verif_nondet_int(-LIM, LIM), y0 = __verif_nondet_int(-LIM, LIM), y1 = __verif_nondet_int(-LIM, LIM);
  __verif_assume(x0 < x1 && y0 < y1);
  CellOrientation ori = (CellOrientation)__verif_choice(2) == CellOrientation::N ? CellOrientation::N : CellOrientation::FS;
  Row row(x0, x1, y0, y1, ori);
  int nobs = __verif_choice(NOBS + 1);
  std::vector<Rectangle> obs;
  for (int k = 0; k < nobs; ++k) {
    int a = __verif_nondet_int(-LIM, LIM), b = __verif_nondet_int(-LIM, LIM), c = __verif_nondet_int(-LIM, LIM), d = __verif_nondet_int(-LIM, LIM);
    obs.push_back(Rectangle(a, b, c, d));   // may be degenerate or inverted
  }
  std::vector<Row> fs = row.freespace(obs);
  __verif_cover("freespace computed");
  int q = __verif_nondet_int(-LIM - 1, LIM + 1);   // arbitrary column [q, q+1)
  bool inSeg = false;
  for (size_t i = 0; i < fs.size(); ++i) {
    VASSERT(fs[i].minX < fs[i].maxX, "segment non-empty");
    VASSERT(fs[i].minY == y0 && fs[i].maxY == y1, "segment has the full row height");
    VASSERT(fs[i].minX >= x0 && fs[i].maxX <= x1, "segment inside the row");
    VASSERT(fs[i].orientation == ori, "segment keeps the row orientation");
    for (size_t j = 0; j < i; ++j) VASSERT(fs[i].minX >= fs[j].maxX || fs[j].minX >= fs[i].maxX, "segments disjoint");
    if (fs[i].minX <= q && q < fs[i].maxX) inSeg = true;
    __verif_observe(fs[i].minX); __verif_observe(fs[i].maxX);
  }
  bool blocked = false;
  for (int k = 0; k < nobs; ++k) if (blocks(obs[k], row, q)) blocked = true;
  bool expect = (x0 <= q && q < x1) && !blocked;
  VASSERT(inSeg == expect, "column is in a returned segment iff it is in the row and touched by no obstacle");
  __verif_cover("end");
}
#else
extern "C" void harness() {
#ifndef NC
#define NC 1
#endif
  Circuit c(NC);
  std::vector<int> w, h, x, y; std::vector<bool> fx, ob; std::vector<CellOrientation> orient;
  for (int i = 0; i < NC; ++i) {
    w.push_back(__verif_nondet_int(0, 64)); h.push_back(__verif_nondet_int(0, 64));
    x.push_back(__verif_nondet_int(-64, 64)); y.push_back(__verif_nondet_int(-64, 64));
    fx.push_back(__verif_choice(2) != 0); ob.push_back(__verif_choice(2) != 0);
    orient.push_back((CellOrientation)__verif_nondet_int(0, 7));
  }
  c.setCellWidth(w); c.setCellHeight(h); c.setCellX(x); c.setCellY(y); c.setCellIsFixed(fx); c.setCellIsObstruction(ob); c.setCellOrientation(orient);
  int x0 = __verif_nondet_int(-64, 64), x1 = __verif_nondet_int(-64, 64), y0 = __verif_nondet_int(-64, 64), y1 = __verif_nondet_int(-64, 64);
  __verif_assume(x0 < x1 && y0 < y1);
  std::vector<Row> rows; rows.push_back(Row(x0, x1, y0, y1, CellOrientation::N));
  c.setRows(rows);
  std::vector<Rectangle> extra;
  int nCellObs = 0; for (int i = 0; i < NC; ++i) nCellObs += (fx[i] && ob[i]) ? 1 : 0;
  if (nCellObs < MAXOBS && __verif_choice(2)) {
    int ea = __verif_nondet_int(-64, 64); int eb = __verif_nondet_int(-64, 64); int ec = __verif_nondet_int(-64, 64); int ed = __verif_nondet_int(-64, 64);
    extra.push_back(Rectangle(ea, eb, ec, ed));
  }
  std::vector<Row> got = c.computeRows(extra);
  // oracle: expected obstacle list
  std::vector<Rectangle> expObs = extra;
  for (int i = 0; i < NC; ++i) {
    if (fx[i] && ob[i]) {
      bool turn = orient[i] == CellOrientation::W || orient[i] == CellOrientation::E || orient[i] == CellOrientation::FW || orient[i] == CellOrientation::FE;
      int pw = turn ? h[i] : w[i], ph = turn ? w[i] : h[i];
      expObs.push_back(Rectangle(x[i], x[i] + pw, y[i], y[i] + ph));
    }
  }
  int q = __verif_nondet_int(-65, 65);
  bool inSeg = false;
  for (size_t i = 0; i < got.size(); ++i) if (got[i].minX <= q && q < got[i].maxX) inSeg = true;
  bool blocked = false;
  for (size_t k = 0; k < expObs.size(); ++k) if (blocks(expObs[k], rows[0], q)) blocked = true;
  VASSERT(inSeg == ((x0 <= q && q < x1) && !blocked), "computeRows subtracts exactly the fixed obstruction cells (placed footprint) and the extra obstacles");
  __verif_cover("end");
}
#endif
