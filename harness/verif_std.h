// std headers used by the repository, included before `#define private public` so that (in the native build) the real
// library headers are never compiled with the keyword redefined.
#pragma once
#include <algorithm>
#include <cassert>
#include <chrono>
#include <cmath>
#include <fstream>
#include <functional>
#include <future>
#include <iomanip>
#include <iosfwd>
#include <iostream>
#include <limits>
#include <numeric>
#include <optional>
#include <queue>
#include <random>
#include <sstream>
#include <stdexcept>
#include <string>
#include <tuple>
#include <unordered_map>
#include <unordered_set>
#include <utility>
#include <vector>
#include "verif.h"
