// Model of the part of Eigen used by MatrixCreator::solve: the conjugate-gradient result is an arbitrary vector of finite floats
// of the right size (environment contract; Eigen internals are not verified by anything here).
#pragma once
#include "vstl_base.h"
extern "C" float __verif_nondet_float(float lo, float hi);
extern "C" void __verif_env_input_f(double v);
extern "C" int __verif_choice(int n);
extern "C" double __verif_uf_mix(double h, double v);     // digest of the solver inputs (0 unless floats are uninterpreted functions)
extern "C" float __verif_cg_result(double digest, int i);   // i-th coordinate of the result: a function of the digest
// what the repository last handed to the solver as stopping criteria (read back by the C17 harness)
inline float __verif_cg_tolerance = -1.0f; inline int __verif_cg_max_iterations = -1;
namespace Eigen {
enum { Lower = 1, Upper = 2 };
template <class S> struct Triplet { int r_, c_; S v_; Triplet() : r_(0), c_(0), v_(0) {} Triplet(int r, int c, S v) : r_(r), c_(c), v_(v) {} int row() const { return r_; } int col() const { return c_; } S value() const { return v_; } };
template <class S, int R, int C> struct Matrix {
  int n_; S* ext_; S d_[VCAP];
  Matrix() : n_(0), ext_(nullptr) {}
  template <class It> static Matrix Map(It p, long n) { Matrix m; m.n_ = (int)n; m.ext_ = p; return m; }
  Matrix& operator=(const Matrix& o) { if (ext_) { for (int i = 0; i < n_ && i < o.n_; ++i) ext_[i] = o.ext_ ? o.ext_[i] : o.d_[i]; } else { n_ = o.n_; for (int i = 0; i < n_; ++i) d_[i] = o.ext_ ? o.ext_[i] : o.d_[i]; } return *this; }
  // not used by the pinned sources; modelled as one of a few positive magnitudes so that code dividing by it stays linear
  S norm() const { int k = __verif_choice(3); return k == 0 ? (S)0.5f : (k == 1 ? (S)2.0f : (S)1024.0f); }
  Matrix(const Matrix& o) : n_(o.n_), ext_(nullptr) { for (int i = 0; i < n_; ++i) d_[i] = o.ext_ ? o.ext_[i] : o.d_[i]; }
};
template <class M> struct Map;
template <class S, int R, int C> struct Map<Matrix<S, R, C> > : Matrix<S, R, C> { Map(S* p, long n) { this->n_ = (int)n; this->ext_ = p; } };
template <class S> struct SparseMatrix { int r_, c_; double h_; SparseMatrix(int r, int c) : r_(r), c_(c), h_(0.0) {} template <class It> void setFromTriplets(It b, It e) { for (; b != e; ++b) { __verif_env_input_f((double)b->value()); h_ = __verif_uf_mix(__verif_uf_mix(__verif_uf_mix(h_, (double)b->row()), (double)b->col()), (double)b->value()); } } };
template <class M, int UpLo> struct ConjugateGradient {
  int n_; double h_;
  ConjugateGradient() : n_(0), h_(0.0) {}
  void compute(const M& m) { n_ = m.r_; h_ = m.h_; }
  void setTolerance(float t) { __verif_cg_tolerance = t; h_ = __verif_uf_mix(h_, (double)t); }
  void setMaxIterations(int n) { __verif_cg_max_iterations = n; h_ = __verif_uf_mix(h_, (double)n); }
  template <class A, class B> Matrix<float, -1, 1> solveWithGuess(const A& rhs, const B& guess) {
    Matrix<float, -1, 1> r; r.n_ = rhs.n_;
    double h = h_;
    for (int i = 0; i < rhs.n_; ++i) { double v = (double)(rhs.ext_ ? rhs.ext_[i] : rhs.d_[i]); __verif_env_input_f(v); h = __verif_uf_mix(h, v); }
    for (int i = 0; i < guess.n_; ++i) h = __verif_uf_mix(h, (double)(guess.ext_ ? guess.ext_[i] : guess.d_[i]));
    VCAPREQ(r.n_ <= VCAP);
    for (int i = 0; i < r.n_; ++i) r.d_[i] = __verif_cg_result(h, i);
    return r;
  }
};
}
