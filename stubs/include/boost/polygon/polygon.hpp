// Model of the part of boost::polygon that Coloquinte uses (Row::freespace): a 90-degree polygon set made of ONE positive
// rectangle and any number of holes, decomposed by get_rectangles() with vertical slicing: maximal x-intervals of constant
// free cross-section, one rectangle per free y-interval (measured against boost 1.74; validated per run by native replay).
#pragma once
#include "vstl_base.h"
namespace boost { namespace polygon {
template <class T> struct rectangle_data {
  T xl_, yl_, xh_, yh_;
  rectangle_data() : xl_(0), yl_(0), xh_(0), yh_(0) {}
  rectangle_data(T xl, T yl, T xh, T yh) : xl_(xl), yl_(yl), xh_(xh), yh_(yh) {}
};
template <class T> T xl(const rectangle_data<T>& r) { return r.xl_; }
template <class T> T xh(const rectangle_data<T>& r) { return r.xh_; }
template <class T> T yl(const rectangle_data<T>& r) { return r.yl_; }
template <class T> T yh(const rectangle_data<T>& r) { return r.yh_; }
template <class T> struct polygon_90_set_data {
  bool hasPos_; rectangle_data<T> pos_;
  std::vector<rectangle_data<T> > holes_;
  polygon_90_set_data() : hasPos_(false) {}
  void insert(const rectangle_data<T>& r, bool hole = false) {
    if (hole) { holes_.push_back(r); return; }
    VREQ(!hasPos_, "boost model: only one positive rectangle supported");
    hasPos_ = true; pos_ = r;
  }
};
struct orientation_2d { int v_; constexpr explicit orientation_2d(int v) : v_(v) {} bool operator==(orientation_2d o) const { return v_ == o.v_; } };
static constexpr orientation_2d HORIZONTAL(0); static constexpr orientation_2d VERTICAL(1);
template <class T> void get_rectangles(std::vector<rectangle_data<T> >& out, const polygon_90_set_data<T>& s);
// slicing orientation: VERTICAL is the default decomposition; HORIZONTAL is the same algorithm with the axes exchanged
template <class T> void get_rectangles(std::vector<rectangle_data<T> >& out, const polygon_90_set_data<T>& s, orientation_2d o) {
  if (o == VERTICAL) { get_rectangles(out, s); return; }
  polygon_90_set_data<T> t; t.hasPos_ = s.hasPos_;
  t.pos_ = rectangle_data<T>(s.pos_.yl_, s.pos_.xl_, s.pos_.yh_, s.pos_.xh_);
  for (size_t k = 0; k < s.holes_.size(); ++k) t.holes_.push_back(rectangle_data<T>(s.holes_[k].yl_, s.holes_[k].xl_, s.holes_[k].yh_, s.holes_[k].xh_));
  std::vector<rectangle_data<T> > tmp; get_rectangles(tmp, t);
  for (size_t k = 0; k < tmp.size(); ++k) out.push_back(rectangle_data<T>(tmp[k].yl_, tmp[k].xl_, tmp[k].yh_, tmp[k].xh_));
}
template <class T> void get_rectangles(std::vector<rectangle_data<T> >& out, const polygon_90_set_data<T>& s) {
  if (!s.hasPos_) return;
  const rectangle_data<T> R = s.pos_;
  if (!(R.xl_ < R.xh_ && R.yl_ < R.yh_)) return;
  // x breakpoints
  std::vector<T> xs; xs.push_back(R.xl_); xs.push_back(R.xh_);
  for (size_t k = 0; k < s.holes_.size(); ++k) {
    const rectangle_data<T>& h = s.holes_[k];
    if (!(h.xl_ < h.xh_ && h.yl_ < h.yh_)) continue;
    if (h.xl_ > R.xl_ && h.xl_ < R.xh_) xs.push_back(h.xl_);
    if (h.xh_ > R.xl_ && h.xh_ < R.xh_) xs.push_back(h.xh_);
  }
  std::sort(xs.begin(), xs.end());
  // free y-intervals of each elementary slab, merged with the previous slab when identical
  std::vector<T> prevY; T prevStart = R.xl_; bool havePrev = false;
  for (size_t i = 0; i + 1 <= xs.size(); ++i) {
    bool last = (i + 1 == xs.size());
    std::vector<T> ys;   // flattened [lo0,hi0,lo1,hi1,...]
    if (!last) {
      T a = xs[i], b = xs[i + 1];
      if (a == b) continue;
      // y breakpoints inside the slab
      std::vector<T> yb; yb.push_back(R.yl_); yb.push_back(R.yh_);
      for (size_t k = 0; k < s.holes_.size(); ++k) {
        const rectangle_data<T>& h = s.holes_[k];
        if (!(h.xl_ < h.xh_ && h.yl_ < h.yh_)) continue;
        if (!(h.xl_ <= a && h.xh_ >= b)) continue;
        if (h.yl_ > R.yl_ && h.yl_ < R.yh_) yb.push_back(h.yl_);
        if (h.yh_ > R.yl_ && h.yh_ < R.yh_) yb.push_back(h.yh_);
      }
      std::sort(yb.begin(), yb.end());
      for (size_t j = 0; j + 1 < yb.size(); ++j) {
        T c = yb[j], d = yb[j + 1];
        if (c == d) continue;
        bool covered = false;
        for (size_t k = 0; k < s.holes_.size(); ++k) {
          const rectangle_data<T>& h = s.holes_[k];
          if (!(h.xl_ < h.xh_ && h.yl_ < h.yh_)) continue;
          if (h.xl_ <= a && h.xh_ >= b && h.yl_ <= c && h.yh_ >= d) { covered = true; break; }
        }
        if (covered) continue;
        if (!ys.empty() && ys.back() == c) ys.back() = d; else { ys.push_back(c); ys.push_back(d); }
      }
    }
    bool same = havePrev && !last && ys == prevY;
    if (same) continue;
    if (havePrev) {
      T end = last ? R.xh_ : xs[i];
      for (size_t j = 0; j + 1 < prevY.size(); j += 2) out.push_back(rectangle_data<T>(prevStart, prevY[j], end, prevY[j + 1]));
    }
    if (!last) { prevY = ys; prevStart = xs[i]; havePrev = true; }
  }
}
} }
