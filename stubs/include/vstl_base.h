// Bounded, heap-free models of the parts of the C++ standard library that
// Coloquinte uses.  Trusted base of the irsx checks (validated differentially
// against libstdc++ by the native replay of every harness).  Deliberately dumb.
#pragma once
#ifndef VCAP
#define VCAP 6
#endif
#define VERIF_STUB_STL 1
#ifndef VERIF_FUNCTION_BUF
#define VERIF_FUNCTION_BUF 32
#endif
extern "C" {
void __verif_fail(const char*) __attribute__((noreturn));        // container contract violated
void __verif_bound_hit(const char*) __attribute__((noreturn));   // model capacity exceeded (not a violation)
void __verif_assert_fail(const char*) __attribute__((noreturn)); // repository assert() failed
}
#define VREQ(c, m) do { if (!(c)) __verif_fail(m); } while (0)
#define VCAPREQ(c) do { if (!(c)) __verif_bound_hit("container capacity VCAP"); } while (0)
#define VINL inline __attribute__((always_inline))
typedef unsigned long size_t;
typedef long ptrdiff_t;
typedef long intptr_t;
typedef unsigned long uintptr_t;
typedef signed char int8_t; typedef short int16_t; typedef int int32_t; typedef long int64_t;
typedef unsigned char uint8_t; typedef unsigned short uint16_t; typedef unsigned int uint32_t; typedef unsigned long uint64_t;
inline void* operator new(unsigned long, void* p) noexcept { return p; }
// ---- math: engine evaluates concretely or by contract
extern "C" {
double exp(double) noexcept; double log(double) noexcept; double pow(double, double) noexcept; double sqrt(double) noexcept;
float expf(float) noexcept; float logf(float) noexcept; float powf(float, float) noexcept; float sqrtf(float) noexcept;
double round(double) noexcept; float roundf(float) noexcept; double floor(double) noexcept; float floorf(float) noexcept; double ceil(double) noexcept; float ceilf(float) noexcept;
void abort() noexcept __attribute__((noreturn));
}
namespace std {
using ::exp; using ::log; using ::pow; using ::sqrt; using ::round; using ::floor; using ::ceil; using ::abort;
using ::size_t; using ::ptrdiff_t;
using ::int8_t; using ::int16_t; using ::int32_t; using ::int64_t; using ::uint8_t; using ::uint16_t; using ::uint32_t; using ::uint64_t;
typedef decltype(nullptr) nullptr_t;
// ---- type traits (minimal)
template <class T, T v> struct integral_constant { static constexpr T value = v; };
typedef integral_constant<bool, true> true_type; typedef integral_constant<bool, false> false_type;
template <class T> struct remove_reference { typedef T type; };
template <class T> struct remove_reference<T&> { typedef T type; };
template <class T> struct remove_reference<T&&> { typedef T type; };
template <class T> struct remove_const { typedef T type; }; template <class T> struct remove_const<const T> { typedef T type; };
template <class T> struct decay { typedef typename remove_const<typename remove_reference<T>::type>::type type; };
template <class T> using decay_t = typename decay<T>::type;
template <bool B, class T = void> struct enable_if {}; template <class T> struct enable_if<true, T> { typedef T type; };
template <class A, class B> struct is_same : false_type {}; template <class A> struct is_same<A, A> : true_type {};
template <class T> VINL typename remove_reference<T>::type&& move(T&& t) { return static_cast<typename remove_reference<T>::type&&>(t); }
template <class T> VINL T&& forward(typename remove_reference<T>::type& t) { return static_cast<T&&>(t); }
template <class T> VINL T&& forward(typename remove_reference<T>::type&& t) { return static_cast<T&&>(t); }
template <class T> VINL void swap(T& a, T& b) { T t = static_cast<T&&>(a); a = static_cast<T&&>(b); b = static_cast<T&&>(t); }
template <class T> T&& declval();
// ---- min / max / abs
template <class T> VINL const T& min(const T& a, const T& b) { return b < a ? b : a; }
template <class T> VINL const T& max(const T& a, const T& b) { return a < b ? b : a; }
template <class T> VINL const T& clamp(const T& v, const T& lo, const T& hi) { return v < lo ? lo : (hi < v ? hi : v); }
VINL int abs(int x) { return x < 0 ? -x : x; }
VINL long abs(long x) { return x < 0 ? -x : x; }
VINL long long abs(long long x) { return x < 0 ? -x : x; }
VINL float abs(float x) { return __builtin_fabsf(x); }
VINL double abs(double x) { return __builtin_fabs(x); }
template <class T = void> struct less { bool operator()(const T& a, const T& b) const { return a < b; } };
template <class T = void> struct greater { bool operator()(const T& a, const T& b) const { return a > b; } };
// ---- pair / tuple
template <class A, class B> struct pair {
  A first; B second;
  typedef A first_type; typedef B second_type;
  pair() : first(), second() {}
  pair(const A& a, const B& b) : first(a), second(b) {}
  template <class A2, class B2> pair(const pair<A2, B2>& o) : first(o.first), second(o.second) {}
  bool operator<(const pair& o) const { return first < o.first || (!(o.first < first) && second < o.second); }
  bool operator>(const pair& o) const { return o < *this; }
  bool operator<=(const pair& o) const { return !(o < *this); }
  bool operator>=(const pair& o) const { return !(*this < o); }
  bool operator==(const pair& o) const { return first == o.first && second == o.second; }
  bool operator!=(const pair& o) const { return !(*this == o); }
};
template <class A, class B> VINL pair<typename decay<A>::type, typename decay<B>::type> make_pair(A&& a, B&& b) { return pair<typename decay<A>::type, typename decay<B>::type>(a, b); }
template <class T> struct tuple_size; template <size_t I, class T> struct tuple_element;
template <class A, class B> struct tuple_size<pair<A, B> > { static constexpr size_t value = 2; };
template <class A, class B> struct tuple_element<0, pair<A, B> > { typedef A type; };
template <class A, class B> struct tuple_element<1, pair<A, B> > { typedef B type; };
template <size_t I, class A, class B> VINL auto& get(pair<A, B>& p) { if constexpr (I == 0) return p.first; else return p.second; }
template <size_t I, class A, class B> VINL auto&& get(pair<A, B>&& p) { if constexpr (I == 0) return static_cast<A&&>(p.first); else return static_cast<B&&>(p.second); }
template <size_t I, class A, class B> VINL const auto& get(const pair<A, B>& p) { if constexpr (I == 0) return p.first; else return p.second; }
template <class... T> struct tuple;
template <> struct tuple<> { bool operator<(const tuple&) const { return false; } bool operator==(const tuple&) const { return true; } };
template <class H, class... R> struct tuple<H, R...> {
  H h_; tuple<R...> r_;
  tuple() : h_(), r_() {}
  tuple(const H& h, const R&... r) : h_(h), r_(r...) {}
  bool operator<(const tuple& o) const { return h_ < o.h_ || (!(o.h_ < h_) && r_ < o.r_); }
  bool operator>(const tuple& o) const { return o < *this; }
  bool operator==(const tuple& o) const { return h_ == o.h_ && r_ == o.r_; }
  bool operator!=(const tuple& o) const { return !(*this == o); }
};
template <class... T> struct tuple_size<tuple<T...> > { static constexpr size_t value = sizeof...(T); };
template <class H, class... R> struct tuple_element<0, tuple<H, R...> > { typedef H type; };
template <size_t I, class H, class... R> struct tuple_element<I, tuple<H, R...> > { typedef typename tuple_element<I - 1, tuple<R...> >::type type; };
template <size_t I, class H, class... R> VINL auto& get(tuple<H, R...>& t) { if constexpr (I == 0) return t.h_; else return get<I - 1>(t.r_); }
template <size_t I, class H, class... R> VINL const auto& get(const tuple<H, R...>& t) { if constexpr (I == 0) return t.h_; else return get<I - 1>(t.r_); }
template <size_t I, class H, class... R> VINL auto&& get(tuple<H, R...>&& t) { if constexpr (I == 0) return static_cast<H&&>(t.h_); else return get<I - 1>(static_cast<tuple<R...>&&>(t.r_)); }
template <class... T> VINL tuple<typename decay<T>::type...> make_tuple(T&&... t) { return tuple<typename decay<T>::type...>(t...); }
// ---- initializer_list (compiler magic needs exactly this shape)
template <class E> class initializer_list {
  const E* b_; size_t n_;
  constexpr initializer_list(const E* b, size_t n) : b_(b), n_(n) {}
 public:
  constexpr initializer_list() : b_(nullptr), n_(0) {}
  constexpr size_t size() const { return n_; }
  constexpr const E* begin() const { return b_; }
  constexpr const E* end() const { return b_ + n_; }
};
// ---- iterators
template <class T> struct reverse_iterator {
  T* p;
  reverse_iterator(T* q) : p(q) {}
  T& operator*() const { return *(p - 1); }
  T* operator->() const { return p - 1; }
  reverse_iterator& operator++() { --p; return *this; }
  bool operator!=(const reverse_iterator& o) const { return p != o.p; }
  bool operator==(const reverse_iterator& o) const { return p == o.p; }
};
// ---- vector: inline storage, capacity VCAP, contract checks
template <class T> struct vector {
  typedef T value_type; typedef T* iterator; typedef const T* const_iterator; typedef size_t size_type; typedef T& reference; typedef const T& const_reference;
  union { T d_[VCAP]; };
  int n_;
  vector() : n_(0) {}
  vector(const vector& o) : n_(0) { for (int i = 0; i < o.n_; ++i) new (&d_[i]) T(o.d_[i]); n_ = o.n_; }
  vector(vector&& o) : n_(0) { for (int i = 0; i < o.n_; ++i) new (&d_[i]) T(static_cast<T&&>(o.d_[i])); n_ = o.n_; o.n_ = 0; }
  vector(initializer_list<T> l) : n_(0) { VCAPREQ(l.size() <= VCAP); for (const T* p = l.begin(); p != l.end(); ++p) new (&d_[n_++]) T(*p); }
  vector& operator=(const vector& o) { if (this != &o) { for (int i = 0; i < o.n_; ++i) new (&d_[i]) T(o.d_[i]); n_ = o.n_; } return *this; }
  vector& operator=(vector&& o) { if (this != &o) { for (int i = 0; i < o.n_; ++i) new (&d_[i]) T(static_cast<T&&>(o.d_[i])); n_ = o.n_; o.n_ = 0; } return *this; }
  vector& operator=(initializer_list<T> l) { VCAPREQ(l.size() <= VCAP); n_ = 0; for (const T* p = l.begin(); p != l.end(); ++p) new (&d_[n_++]) T(*p); return *this; }
  ~vector() {}
  vector(size_t n, const T& v) : n_(0) { assign(n, v); }
  explicit vector(size_t n) : n_(0) { VCAPREQ(n <= VCAP); for (size_t i = 0; i < n; ++i) new (&d_[i]) T(); n_ = (int)n; }
  template <class It, class = decltype(*declval<It&>()), class = decltype(++declval<It&>())> vector(It b, It e) : n_(0) { for (; b != e; ++b) push_back(*b); }
  size_t size() const { return (size_t)n_; }
  bool empty() const { return n_ == 0; }
  void clear() { n_ = 0; }
  void assign(size_t n, const T& v) { VCAPREQ(n <= VCAP); for (size_t i = 0; i < n; ++i) new (&d_[i]) T(v); n_ = (int)n; }
  template <class It, class = decltype(*declval<It&>()), class = decltype(++declval<It&>())> void assign(It b, It e) { n_ = 0; for (; b != e; ++b) push_back(*b); }
  void push_back(const T& v) { VCAPREQ(n_ < VCAP); new (&d_[n_]) T(v); ++n_; }
  void push_back(T&& v) { VCAPREQ(n_ < VCAP); new (&d_[n_]) T(static_cast<T&&>(v)); ++n_; }
  template <class... A> T& emplace_back(A&&... a) { VCAPREQ(n_ < VCAP); new (&d_[n_]) T(static_cast<A&&>(a)...); return d_[n_++]; }
  void reserve(size_t) {}
  void shrink_to_fit() {}
  size_t capacity() const { return VCAP; }
  void resize(size_t n) { VCAPREQ(n <= VCAP); for (size_t i = (size_t)n_; i < n; ++i) new (&d_[i]) T(); n_ = (int)n; }
  void resize(size_t n, const T& v) { VCAPREQ(n <= VCAP); for (size_t i = (size_t)n_; i < n; ++i) new (&d_[i]) T(v); n_ = (int)n; }
  template <class It> T* insert(const T* pos, It b, It e) {
    int at = (int)(pos - d_); VREQ(at >= 0 && at <= n_, "vector::insert position out of range");
    int k = 0; for (It q = b; q != e; ++q) ++k;
    VCAPREQ(n_ + k <= VCAP);
    for (int i = n_ - 1; i >= at; --i) new (&d_[i + k]) T(static_cast<T&&>(d_[i]));
    int j = at; for (; b != e; ++b) new (&d_[j++]) T(*b);
    n_ += k; return d_ + at;
  }
  T* insert(const T* pos, const T& v) { const T* b = &v; T tmp(v); return insert(pos, &tmp, &tmp + 1); }
  T* erase(const T* pos) { int at = (int)(pos - d_); VREQ(at >= 0 && at < n_, "vector::erase position out of range"); for (int i = at; i + 1 < n_; ++i) d_[i] = static_cast<T&&>(d_[i + 1]); --n_; return d_ + at; }
  T* erase(const T* b, const T* e) { int at = (int)(b - d_), k = (int)(e - b); VREQ(at >= 0 && k >= 0 && at + k <= n_, "vector::erase range"); for (int i = at; i + k < n_; ++i) d_[i] = static_cast<T&&>(d_[i + k]); n_ -= k; return d_ + at; }
  T* data() { return d_; }
  const T* data() const { return d_; }
  void pop_back() { VREQ(n_ > 0, "pop_back on empty vector"); --n_; }
  T& operator[](size_t i) { VREQ(i < (size_t)n_, "vector index out of range"); return d_[i]; }
  const T& operator[](size_t i) const { VREQ(i < (size_t)n_, "vector index out of range"); return d_[i]; }
  T& at(size_t i) { VREQ(i < (size_t)n_, "vector::at out of range"); return d_[i]; }
  const T& at(size_t i) const { VREQ(i < (size_t)n_, "vector::at out of range"); return d_[i]; }
  T& back() { VREQ(n_ > 0, "back on empty vector"); return d_[n_ - 1]; }
  const T& back() const { VREQ(n_ > 0, "back on empty vector"); return d_[n_ - 1]; }
  T& front() { VREQ(n_ > 0, "front on empty vector"); return d_[0]; }
  const T& front() const { VREQ(n_ > 0, "front on empty vector"); return d_[0]; }
  T* begin() { return d_; }
  T* end() { return d_ + n_; }
  const T* begin() const { return d_; }
  const T* end() const { return d_ + n_; }
  const T* cbegin() const { return d_; }
  const T* cend() const { return d_ + n_; }
  reverse_iterator<T> rbegin() { return reverse_iterator<T>(d_ + n_); }
  reverse_iterator<T> rend() { return reverse_iterator<T>(d_); }
  reverse_iterator<const T> rbegin() const { return reverse_iterator<const T>(d_ + n_); }
  reverse_iterator<const T> rend() const { return reverse_iterator<const T>(d_); }
  void swap(vector& o) { vector t(static_cast<vector&&>(*this)); *this = static_cast<vector&&>(o); o = static_cast<vector&&>(t); }
  bool operator==(const vector& o) const { if (n_ != o.n_) return false; for (int i = 0; i < n_; ++i) if (!(d_[i] == o.d_[i])) return false; return true; }
  bool operator!=(const vector& o) const { return !(*this == o); }
};
// ---- priority_queue: sorted array (largest at the end); canonical representation
template <class T, class C = vector<T>, class L = less<T> > struct priority_queue {
  union { T d_[VCAP]; };
  int n_;
  typedef L value_compare;
  priority_queue() : n_(0) {}
  priority_queue(const priority_queue& o) : n_(0) { for (int i = 0; i < o.n_; ++i) new (&d_[i]) T(o.d_[i]); n_ = o.n_; }
  priority_queue& operator=(const priority_queue& o) { for (int i = 0; i < o.n_; ++i) new (&d_[i]) T(o.d_[i]); n_ = o.n_; return *this; }
  ~priority_queue() {}
  template <class C2> priority_queue(const L&, C2&& c) : n_(0) { for (size_t i = 0; i < c.size(); ++i) push(c[i]); }
  template <class... A> void emplace(A&&... a) { push(T(static_cast<A&&>(a)...)); }
  bool empty() const { return n_ == 0; }
  size_t size() const { return (size_t)n_; }
  const T& top() const { VREQ(n_ > 0, "top on empty priority_queue"); return d_[n_ - 1]; }
  void pop() { VREQ(n_ > 0, "pop on empty priority_queue"); --n_; }
  void push(const T& v) {
    VCAPREQ(n_ < VCAP);
    L lt; int i = n_;
    while (i > 0 && lt(v, d_[i - 1])) { new (&d_[i]) T(d_[i - 1]); --i; }
    new (&d_[i]) T(v); ++n_;
  }
};
// ---- algorithms
template <class It, class C> void sort(It b, It e, C c) { for (It i = b; i != e; ++i) for (It j = i; j != b && c(*j, *(j - 1)); --j) { auto t = *j; *j = *(j - 1); *(j - 1) = t; } }
template <class It> void sort(It b, It e) { for (It i = b; i != e; ++i) for (It j = i; j != b && *j < *(j - 1); --j) { auto t = *j; *j = *(j - 1); *(j - 1) = t; } }
template <class It> void stable_sort(It b, It e) { sort(b, e); }
template <class It, class C> void stable_sort(It b, It e, C c) { sort(b, e, c); }
template <class It, class V, class C> It upper_bound(It b, It e, const V& v, C c) { while (b != e && !c(v, *b)) ++b; return b; }
template <class It, class V, class C> It lower_bound(It b, It e, const V& v, C c) { while (b != e && c(*b, v)) ++b; return b; }
template <class It, class V> It upper_bound(It b, It e, const V& v) { while (b != e && !(v < *b)) ++b; return b; }
template <class It, class V> It lower_bound(It b, It e, const V& v) { while (b != e && *b < v) ++b; return b; }
template <class It> It max_element(It b, It e) { if (b == e) return e; It m = b; for (++b; b != e; ++b) if (*m < *b) m = b; return m; }
template <class It> It min_element(It b, It e) { if (b == e) return e; It m = b; for (++b; b != e; ++b) if (*b < *m) m = b; return m; }
template <class It> void reverse(It b, It e) { while (b != e && b != --e) { auto t = *b; *b = *e; *e = t; ++b; } }
template <class It, class V> It find(It b, It e, const V& v) { for (; b != e; ++b) if (*b == v) return b; return e; }
template <class It, class V> void fill(It b, It e, const V& v) { for (; b != e; ++b) *b = v; }
template <class It, class O> O copy(It b, It e, O o) { for (; b != e; ++b, ++o) *o = *b; return o; }
template <class It, class V> V accumulate(It b, It e, V v) { for (; b != e; ++b) v = v + *b; return v; }
template <class It, class V> void iota(It b, It e, V v) { for (; b != e; ++b, ++v) *b = v; }
template <class I, class O> O partial_sum(I b, I e, O o) { if (b == e) return o; auto acc = *b; *o = acc; ++b; ++o; for (; b != e; ++b, ++o) { acc = acc + *b; *o = acc; } return o; }
template <class I, class O, class F> O partial_sum(I b, I e, O o, F f) { if (b == e) return o; auto acc = *b; *o = acc; ++b; ++o; for (; b != e; ++b, ++o) { acc = f(acc, *b); *o = acc; } return o; }
template <class It> bool next_permutation(It b, It e) {
  if (b == e) return false; It i = e; if (b == --i) return false;
  while (true) { It i1 = i; if (*--i < *i1) { It j = e; while (!(*i < *--j)) {} auto t = *i; *i = *j; *j = t; reverse(i1, e); return true; }
    if (i == b) { reverse(b, e); return false; } }
}
template <class It, class P> bool all_of(It b, It e, P p) { for (; b != e; ++b) if (!p(*b)) return false; return true; }
template <class It, class P> bool any_of(It b, It e, P p) { for (; b != e; ++b) if (p(*b)) return true; return false; }
// ---- string (message carrier only; formatting is not the subject of any claimed property)
struct string {
  const char* p;
  string() : p("") {}
  string(const char* s) : p(s) {}
  string operator+(const string&) const { return *this; }
  string operator+(const char*) const { return *this; }
  string& operator+=(const string&) { return *this; }
  string& operator+=(const char*) { return *this; }
  const char* c_str() const { return p; }
  size_t size() const { return 0; }
  bool empty() const { return true; }
  bool operator==(const string& o) const { return p == o.p; }
  bool operator!=(const string& o) const { return p != o.p; }
};
inline string operator+(const char*, const string& s) { return s; }
template <class T> string to_string(T) { return string(); }
// ---- exceptions
struct exception { exception() {} virtual ~exception() {} virtual const char* what() const noexcept { return ""; } };
struct runtime_error : exception { const char* m; runtime_error(const char* s) : m(s) {} runtime_error(const string& s) : m(s.p) {} const char* what() const noexcept override { return m; } };
struct logic_error : exception { const char* m; logic_error(const char* s) : m(s) {} logic_error(const string& s) : m(s.p) {} const char* what() const noexcept override { return m; } };
struct out_of_range : logic_error { using logic_error::logic_error; };
struct invalid_argument : logic_error { using logic_error::logic_error; };
struct bad_optional_access : exception {};
struct bad_function_call : exception {};
// ---- function: inline buffer + invoker
template <class T> struct function;
template <class R, class... A> struct function<R(A...)> {
  alignas(8) char buf_[VERIF_FUNCTION_BUF];
  R (*inv_)(const void*, A...);
  void (*cpy_)(void*, const void*);
  function() : inv_(nullptr), cpy_(nullptr) {}
  function(nullptr_t) : inv_(nullptr), cpy_(nullptr) {}
  function(const function& o) : inv_(o.inv_), cpy_(o.cpy_) { if (cpy_) cpy_(buf_, o.buf_); }
  function& operator=(const function& o) { inv_ = o.inv_; cpy_ = o.cpy_; if (cpy_) cpy_(buf_, o.buf_); return *this; }
  template <class F, class = typename enable_if<!is_same<typename decay<F>::type, function>::value>::type, class = decltype(declval<typename decay<F>::type&>()(declval<A>()...))>
  function(F&& f) {
    typedef typename decay<F>::type FT;
    static_assert(sizeof(FT) <= VERIF_FUNCTION_BUF, "std::function stub buffer too small");
    new (buf_) FT(static_cast<F&&>(f));
    inv_ = [](const void* b, A... a) -> R { return (*const_cast<FT*>(static_cast<const FT*>(b)))(static_cast<A&&>(a)...); };
    cpy_ = [](void* d, const void* s) { new (d) FT(*static_cast<const FT*>(s)); };
  }
  explicit operator bool() const { return inv_ != nullptr; }
  R operator()(A... a) const { if (!inv_) throw bad_function_call(); return inv_(buf_, static_cast<A&&>(a)...); }
};
// ---- optional
struct nullopt_t { explicit constexpr nullopt_t(int) {} }; static constexpr nullopt_t nullopt{0};
template <class T> struct optional {
  bool has_; union { T v_; };
  optional() : has_(false) {}
  optional(nullopt_t) : has_(false) {}
  optional(const T& v) : has_(true) { new (&v_) T(v); }
  optional(const optional& o) : has_(o.has_) { if (has_) new (&v_) T(o.v_); }
  optional& operator=(const optional& o) { has_ = o.has_; if (has_) new (&v_) T(o.v_); return *this; }
  template <class U, class = typename enable_if<!is_same<typename decay<U>::type, optional>::value>::type, class = decltype(T(declval<U>()))> optional(U&& u) : has_(true) { new (&v_) T(static_cast<U&&>(u)); }
  ~optional() {}
  bool has_value() const { return has_; }
  explicit operator bool() const { return has_; }
  T& value() { if (!has_) throw bad_optional_access(); return v_; }
  const T& value() const { if (!has_) throw bad_optional_access(); return v_; }
  T& operator*() { VREQ(has_, "optional dereferenced while empty"); return v_; }
  const T& operator*() const { VREQ(has_, "optional dereferenced while empty"); return v_; }
  T* operator->() { VREQ(has_, "optional dereferenced while empty"); return &v_; }
  const T* operator->() const { VREQ(has_, "optional dereferenced while empty"); return &v_; }
};
// ---- numeric_limits
template <class T> struct numeric_limits;
template <> struct numeric_limits<int> { static constexpr int max() { return 2147483647; } static constexpr int min() { return -2147483647 - 1; } static constexpr int lowest() { return min(); } };
template <> struct numeric_limits<unsigned> { static constexpr unsigned max() { return 4294967295u; } static constexpr unsigned min() { return 0; } };
template <> struct numeric_limits<long> { static constexpr long max() { return 9223372036854775807L; } static constexpr long min() { return -9223372036854775807L - 1; } static constexpr long lowest() { return min(); } };
template <> struct numeric_limits<long long> { static constexpr long long max() { return 9223372036854775807LL; } static constexpr long long min() { return -9223372036854775807LL - 1; } static constexpr long long lowest() { return min(); } };
template <> struct numeric_limits<unsigned long> { static constexpr unsigned long max() { return 18446744073709551615UL; } static constexpr unsigned long min() { return 0; } };
template <> struct numeric_limits<float> { static constexpr float max() { return __FLT_MAX__; } static constexpr float min() { return __FLT_MIN__; } static constexpr float lowest() { return -__FLT_MAX__; } static constexpr float infinity() { return __builtin_huge_valf(); } static constexpr float epsilon() { return __FLT_EPSILON__; } static constexpr float quiet_NaN() { return __builtin_nanf(""); } };
template <> struct numeric_limits<double> { static constexpr double max() { return __DBL_MAX__; } static constexpr double min() { return __DBL_MIN__; } static constexpr double lowest() { return -__DBL_MAX__; } static constexpr double infinity() { return __builtin_huge_val(); } static constexpr double epsilon() { return __DBL_EPSILON__; } static constexpr double quiet_NaN() { return __builtin_nan(""); } };
// ---- streams: empty bodies
struct ios_base {};
class ostream { public: template <class T> ostream& operator<<(const T&) { return *this; } ostream& operator<<(ostream& (*)(ostream&)) { return *this; } ostream& flush() { return *this; } };
class istream { public: template <class T> istream& operator>>(T&) { return *this; } };
inline ostream& endl(ostream& o) { return o; }
inline ostream& flush(ostream& o) { return o; }
inline ostream& fixed(ostream& o) { return o; }
inline ostream& defaultfloat(ostream& o) { return o; }
inline ostream& scientific(ostream& o) { return o; }
struct setprecision { setprecision(int) {} };
struct setw { setw(int) {} };
struct stringstream : ostream { string str() const { return string(); } };
struct ostringstream : ostream { string str() const { return string(); } };
struct ofstream : ostream { ofstream() {} ofstream(const string&) {} ofstream(const char*) {} bool is_open() const { return true; } void close() {} };
extern ostream cout; extern ostream cerr;
// ---- unordered_set / unordered_map: insertion-ordered association arrays (one admissible iteration order)
template <class K> struct unordered_set {
  vector<K> v_;
  typedef const K* iterator; typedef const K* const_iterator;
  unordered_set() {}
  explicit unordered_set(size_t) {}
  template <class It> unordered_set(It b, It e) { for (; b != e; ++b) insert(*b); }
  size_t count(const K& k) const { for (size_t i = 0; i < v_.size(); ++i) if (v_[i] == k) return 1; return 0; }
  pair<const K*, bool> insert(const K& k) { for (size_t i = 0; i < v_.size(); ++i) if (v_[i] == k) return pair<const K*, bool>(&v_[i], false); v_.push_back(k); return pair<const K*, bool>(&v_.back(), true); }
  template <class... A> pair<const K*, bool> emplace(A&&... a) { return insert(K(static_cast<A&&>(a)...)); }
  const K* find(const K& k) const { for (size_t i = 0; i < v_.size(); ++i) if (v_[i] == k) return &v_[i]; return v_.end(); }
  size_t erase(const K& k) { for (size_t i = 0; i < v_.size(); ++i) if (v_[i] == k) { v_.erase(v_.begin() + i); return 1; } return 0; }
  size_t size() const { return v_.size(); }
  bool empty() const { return v_.empty(); }
  void clear() { v_.clear(); }
  void reserve(size_t) {}
  const K* begin() const { return v_.begin(); }
  const K* end() const { return v_.end(); }
};
template <class K, class V> struct unordered_map {
  typedef pair<K, V> value_type;
  vector<value_type> v_;
  typedef value_type* iterator; typedef const value_type* const_iterator;
  unordered_map() {}
  explicit unordered_map(size_t) {}
  V& operator[](const K& k) { for (size_t i = 0; i < v_.size(); ++i) if (v_[i].first == k) return v_[i].second; v_.push_back(value_type(k, V())); return v_.back().second; }
  V& at(const K& k) { for (size_t i = 0; i < v_.size(); ++i) if (v_[i].first == k) return v_[i].second; throw out_of_range("unordered_map::at"); }
  const V& at(const K& k) const { for (size_t i = 0; i < v_.size(); ++i) if (v_[i].first == k) return v_[i].second; throw out_of_range("unordered_map::at"); }
  size_t count(const K& k) const { for (size_t i = 0; i < v_.size(); ++i) if (v_[i].first == k) return 1; return 0; }
  value_type* find(const K& k) { for (size_t i = 0; i < v_.size(); ++i) if (v_[i].first == k) return &v_[i]; return v_.end(); }
  const value_type* find(const K& k) const { for (size_t i = 0; i < v_.size(); ++i) if (v_[i].first == k) return &v_[i]; return v_.end(); }
  pair<value_type*, bool> insert(const value_type& kv) { for (size_t i = 0; i < v_.size(); ++i) if (v_[i].first == kv.first) return pair<value_type*, bool>(&v_[i], false); v_.push_back(kv); return pair<value_type*, bool>(&v_.back(), true); }
  template <class... A> pair<value_type*, bool> emplace(A&&... a) { return insert(value_type(static_cast<A&&>(a)...)); }
  size_t size() const { return v_.size(); }
  bool empty() const { return v_.empty(); }
  void clear() { v_.clear(); }
  value_type* begin() { return v_.begin(); }
  value_type* end() { return v_.end(); }
  const value_type* begin() const { return v_.begin(); }
  const value_type* end() const { return v_.end(); }
};
// ---- math overloads
VINL float exp(float x) { return ::expf(x); }
VINL float log(float x) { return ::logf(x); }
VINL float pow(float x, float y) { return ::powf(x, y); }
VINL double pow(double x, int y) { return ::pow(x, (double)y); }
VINL double pow(float x, double y) { return ::pow((double)x, y); }
VINL double pow(double x, float y) { return ::pow(x, (double)y); }
VINL float sqrt(float x) { return ::sqrtf(x); }
VINL float round(float x) { return ::roundf(x); }
VINL float floor(float x) { return ::floorf(x); }
VINL float ceil(float x) { return ::ceilf(x); }
template <class T, class = typename enable_if<is_same<T, int>::value || is_same<T, long>::value || is_same<T, long long>::value>::type> VINL double sqrt(T x) { return ::sqrt((double)x); }
template <class T, class = typename enable_if<is_same<T, int>::value || is_same<T, long>::value || is_same<T, long long>::value>::type> VINL double round(T x) { return (double)x; }
VINL bool isfinite(float x) { return __builtin_fabsf(x) <= __FLT_MAX__; }
VINL bool isfinite(double x) { return __builtin_fabs(x) <= __DBL_MAX__; }
VINL bool isnan(float x) { return x != x; }
VINL bool isnan(double x) { return x != x; }
}  // namespace std
using std::abs; using std::size_t;
