#include "vstl_base.h"
