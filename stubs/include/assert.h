#include "vstl_base.h"
#undef assert
#ifdef NDEBUG
#define assert(c) ((void)0)
#else
#define assert(c) do { if (!(c)) __verif_assert_fail(#c); } while (0)
#endif
