// Model of lemon::SmartDigraph + NetworkSimplex as used by DetailedPlacer::runShiftsOnCells: graph recording; run() returns
// OPTIMAL; potential() returns arbitrary integers satisfying dual feasibility of the recorded min-cost-flow problem
// (contract of an optimal network-simplex solution).  The repository's arc construction is what gets verified, not lemon.
#pragma once
#include "vstl_base.h"
#ifndef LEMON_NCAP
#define LEMON_NCAP 12
#endif
#ifndef LEMON_ACAP
#define LEMON_ACAP 40
#endif
extern "C" int __verif_nondet_int(int lo, int hi);
extern "C" void __verif_assume(bool);
namespace lemon {
struct SmartDigraph {
  struct Node { int id; Node() : id(-1) {} explicit Node(int i) : id(i) {} bool operator==(const Node& o) const { return id == o.id; } bool operator!=(const Node& o) const { return id != o.id; } };
  struct Arc { int id; Arc() : id(-1) {} explicit Arc(int i) : id(i) {} bool operator==(const Arc& o) const { return id == o.id; } };
  int nn_, na_; int src_[LEMON_ACAP], dst_[LEMON_ACAP];
  SmartDigraph() : nn_(0), na_(0) {}
  Node addNode() { if (nn_ >= LEMON_NCAP) __verif_bound_hit("lemon model node capacity"); return Node(nn_++); }
  Arc addArc(Node a, Node b) { if (na_ >= LEMON_ACAP) __verif_bound_hit("lemon model arc capacity"); VREQ(a.id >= 0 && a.id < nn_ && b.id >= 0 && b.id < nn_, "lemon: arc between invalid nodes"); src_[na_] = a.id; dst_[na_] = b.id; return Arc(na_++); }
  template <class V> struct ArcMap { V v_[LEMON_ACAP]; ArcMap(const SmartDigraph&, V d = V()) { for (int i = 0; i < LEMON_ACAP; ++i) v_[i] = d; } V& operator[](Arc a) { VREQ(a.id >= 0 && a.id < LEMON_ACAP, "lemon: invalid arc"); return v_[a.id]; } const V& operator[](Arc a) const { return v_[a.id]; } };
  template <class V> struct NodeMap { V v_[LEMON_NCAP]; NodeMap(const SmartDigraph&, V d = V()) { for (int i = 0; i < LEMON_NCAP; ++i) v_[i] = d; } V& operator[](Node a) { VREQ(a.id >= 0 && a.id < LEMON_NCAP, "lemon: invalid node"); return v_[a.id]; } const V& operator[](Node a) const { return v_[a.id]; } };
};
#define DIGRAPH_TYPEDEFS(G) typedef G::Node Node; typedef G::Arc Arc; typedef G::ArcMap<int> IntArcMap; typedef G::NodeMap<int> IntNodeMap
}
