#pragma once
#include "smart_graph.h"
#ifndef LEMON_POTLIM
#define LEMON_POTLIM (1 << 24)
#endif
#ifndef LEMON_FLOWMAX
#define LEMON_FLOWMAX 4
#endif
namespace lemon {
template <class G, class V = int, class C = V> struct NetworkSimplex {
  enum ProblemType { INFEASIBLE, OPTIMAL, UNBOUNDED };
  const G& g_; const typename G::template ArcMap<C>* cost_; const typename G::template NodeMap<V>* sup_;
  int pot_[LEMON_NCAP];
  explicit NetworkSimplex(const G& g) : g_(g), cost_(nullptr), sup_(nullptr) {}
  NetworkSimplex& costMap(const typename G::template ArcMap<C>& c) { cost_ = &c; return *this; }
  NetworkSimplex& supplyMap(const typename G::template NodeMap<V>& s) { sup_ = &s; return *this; }
  ProblemType run() {
    // contract: the returned potentials are a dual-feasible solution (reduced cost of every arc >= 0)
    for (int i = 0; i < g_.nn_; ++i) pot_[i] = __verif_nondet_int(-LEMON_POTLIM, LEMON_POTLIM);
    // ... and an optimal one: there is a primal flow (conservation w.r.t. the supplies) that is complementary to it.
    // This characterises exactly the dual optima of a feasible bounded min-cost flow problem.
    int flow[LEMON_ACAP];
    for (int a = 0; a < g_.na_; ++a) {
      long long rc = (long long)cost_->v_[a] + pot_[g_.src_[a]] - pot_[g_.dst_[a]];
      __verif_assume(rc >= 0);
      flow[a] = __verif_nondet_int(0, LEMON_FLOWMAX);
      __verif_assume(flow[a] == 0 || rc == 0);
    }
    for (int v = 0; v < g_.nn_; ++v) {
      long long bal = 0;
      for (int a = 0; a < g_.na_; ++a) { if (g_.src_[a] == v) bal += flow[a]; if (g_.dst_[a] == v) bal -= flow[a]; }
      __verif_assume(bal == (sup_ ? sup_->v_[v] : 0));
    }
    return OPTIMAL;
  }
  V potential(typename G::Node n) const { return pot_[n.id]; }
};
}
