#!/bin/sh
# tools/run_all.sh [tier]: run every registered check in sequence, log to /tmp/run_all.log
tier=${1:-quick}
cd /verif
: > /tmp/run_all_$tier.log
for id in $(python3 -c "import json; print(' '.join(c['property_id'] for c in json.load(open('MANIFEST.json'))['checks']))"); do
  s=$(date +%s)
  ./check $id --tier $tier > /tmp/run_all_$id.out 2>&1; rc=$?
  e=$(date +%s)
  echo "$id exit=$rc wall=$((e-s))s $(grep -E "$tier:" /tmp/run_all_$id.out | cut -c1-160)" >> /tmp/run_all_$tier.log
  grep -E "^VIOLATION|^KNOWN|ERROR|unconfirmed" /tmp/run_all_$id.out | cut -c1-220 >> /tmp/run_all_$tier.log
done
echo DONE >> /tmp/run_all_$tier.log
