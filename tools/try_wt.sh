#!/bin/sh
# tools/try_wt.sh <property id> <worktree with a seeded change applied> [name] [extra check args]: run the check against that tree
# (VERIF_REPO), keeping the committed evidence file.  Used to try several seeded changes in parallel; the final confirmation of a
# change is tools/try_mutation.sh (git -C /repo apply; ./check; git -C /repo checkout -- .).
id=$1; wt=$2; name=${3:-$id}; shift 3 2>/dev/null
cp evidence/$id.json /tmp/ev_keep_$name.json 2>/dev/null
VERIF_REPO=$wt ./check $id "$@" > /tmp/try4_$name.out 2>&1; rc=$?
cp /tmp/ev_keep_$name.json evidence/$id.json 2>/dev/null
echo "$name exit=$rc"; grep -E "^VIOLATION|^KNOWN|quick:|thorough:|unconfirmed|ERROR" /tmp/try4_$name.out | cut -c1-260 | head -8
