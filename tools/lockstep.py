#!/usr/bin/env python3-vt
# tools/lockstep.py PROP HARNESS "(choices)" "[draws]" [cfg-dict]: engine self-check.  Runs the harness (a) concretely with the given
# draws and (b) symbolically, guided at every fork by the same draws, and reports the first point where the two block traces
# or the values of the registers diverge.  A divergence is an engine bug (symbolic semantics != concrete semantics).
import sys, os, ast, tempfile, shutil
sys.path.insert(0, os.path.dirname(os.path.dirname(os.path.abspath(__file__))))
import z3, props
from irsx import driver
from irsx.ir import Module
from irsx.engine import Engine, PathEnd, PathDone
from irsx.values import SV
prop, hn = sys.argv[1], sys.argv[2]
choices = ast.literal_eval(sys.argv[3]); draws = ast.literal_eval(sys.argv[4])
cfgx = ast.literal_eval(sys.argv[5]) if len(sys.argv) > 5 else {}
h = dict([x for x in props.P[prop]['harnesses'] if x['name'] == hn][0])
w = tempfile.mkdtemp(prefix='irsx_lock_')
try:
    mod = Module(driver.compile_ir(h, w))
finally:
    shutil.rmtree(w, ignore_errors=True)
cfg = dict(h.get('cfg', {})); cfg.update(cfgx); cfg['merge'] = cfgx.get('merge', False)
def run(guided):
    e = Engine(mod, dict(cfg, replay_draws=None if guided else draws + [0] * 64))
    tr = []
    og = e.goto
    subs = []
    def sub():
        # draw symbols are created in order: nd<k>!<n>
        return subs
    def evb(t):
        return z3.simplify(z3.substitute(t, *subs)) if subs else z3.simplify(t)
    def goto(st, fr, target):
        tr.append((fr.fn.name[-48:], target)); return og(st, fr, target)
    e.goto = goto
    if guided:
        on = e.newsym
        def newsym(st, name, lo, hi, kind='int'):
            v = on(st, name, lo, hi, kind)
            if name.startswith('nd'):
                k = int(name[2:]); e.add_pc(st, v.t == (draws[k] if k < len(draws) else 0)); st.model = None
            return v
        e.newsym = newsym
    try:
        e.run('@harness', tuple(choices))
    except SystemExit: pass
    return tr, e
t1, e1 = run(False)
print('concrete: %d blocks, violations %s' % (len(t1), [(v['kind'], v['msg']) for v in e1.violations]))
t2, e2 = run(True)
print('guided:   %d blocks, violations %s' % (len(t2), sorted(set((v['kind'], v['msg']) for v in e2.violations))))
for i, (a, b) in enumerate(zip(t1, t2)):
    if a != b:
        print('DIVERGE at block', i); print(' concrete', t1[max(0, i - 5):i + 2]); print(' guided  ', t2[max(0, i - 5):i + 2]); break
else:
    print('traces agree on the common prefix (%d)' % min(len(t1), len(t2)))
