#!/usr/bin/env python3-vt
# tools/probe.py PROP HARNESS "(choices)" ["(forced)"] [tier] [key=value cfg overrides]: run one exploration job and print its statistics
import sys, os, ast, time, json, tempfile, shutil
sys.path.insert(0, os.path.dirname(os.path.dirname(os.path.abspath(__file__))))
import props
from irsx import driver
prop, hn = sys.argv[1], sys.argv[2]
choices = ast.literal_eval(sys.argv[3]) if len(sys.argv) > 3 else ()
forced = ast.literal_eval(sys.argv[4]) if len(sys.argv) > 4 else ()
tier = sys.argv[5] if len(sys.argv) > 5 else 'quick'
h = dict([x for x in props.P[prop]['harnesses'] if x['name'] == hn][0])
ov = h.get(tier, {})
h['defines'] = dict(h.get('defines', {}), **ov.get('defines', {})); h['cfg'] = dict(h.get('cfg', {}), **ov.get('cfg', {}))
for a in sys.argv[6:]:
    k, v = a.split('='); h['cfg'][k] = ast.literal_eval(v)
w = tempfile.mkdtemp(prefix='irsx_probe_')
try:
    t = time.time(); ll = driver.compile_ir(h, w); print('compile %.1fs' % (time.time() - t))
    h['cfg'].setdefault('time_budget', 120)
    t = time.time()
    k, key, r = driver.run_job(ll, h['cfg'], tuple(choices), tuple(forced))
    print(k, key, 'wall %.1f' % (time.time() - t))
    if k == 'ok':
        print({x: r['stats'].get(x) for x in ('paths', 'paths_done', 'paths_assume', 'paths_bound', 'forks', 'merges', 'merge_fail', 'solver_calls', 'unknown', 'instrs')}, 'solver %.1fs' % r['stats']['solver_time'])
        print('vc', r['vc']); print('covers', r['covers'], 'bounds', r['bound_hits'])
        for v in r['violations'][:6]: print('VIOL', v['kind'], v['msg'], v['func'][-50:], [d['v'] for d in v['draws']])
        for u in r['unknown_vcs'][:3]: print('UNKNOWN', u)
    else: print(str(r)[-3000:])
finally:
    shutil.rmtree(w, ignore_errors=True)
