#!/bin/sh
# tools/try_mutation.sh <property id> <patch.diff> [extra check args]: apply a seeded change to /repo, run the check, undo the change
id=$1; patch=$2; shift 2
git -C /repo diff --quiet || { echo "/repo not clean"; exit 9; }
git -C /repo apply "$patch" || { echo "patch does not apply"; exit 9; }
./check $id "$@" > /tmp/try_$id.out 2>&1; rc=$?
git -C /repo checkout -- . 
echo "exit=$rc"; grep -E "^VIOLATION|^KNOWN|^  H|quick:|thorough:|unconfirmed|ERROR" /tmp/try_$id.out | cut -c1-260 | head -12
