#!/bin/sh
# tools/confirm_mutation.sh <id> <worktree>: confirm a seeded change: builds, ctest passes, demo fails with it and passes without; then store it
id=$1; wt=$2; name=${3:-$id}
out=/verif/seeded/$name; mkdir -p $out
cd $wt || exit 9
git checkout -- src 2>/dev/null; git apply mutation/patch.diff || { echo "patch.diff does not apply"; exit 9; }
(cmake -G Ninja -B _build -S . -DCMAKE_BUILD_TYPE=Release >/dev/null 2>&1; cmake --build _build >/dev/null 2>&1) || { echo BUILD-FAILED; exit 1; }
ct=$(ctest --test-dir _build -j8 2>&1 | grep "tests passed")
SRCS_M="$wt/src/*.cpp $wt/src/place_global/*.cpp $wt/src/place_detailed/*.cpp"
SRCS_O="/repo/src/*.cpp /repo/src/place_global/*.cpp /repo/src/place_detailed/*.cpp"
g++ -std=c++17 -O1 -w -I $wt/src mutation/demo.cpp $SRCS_M -llemon -o /tmp/demo_m_$name 2>/dev/null &
g++ -std=c++17 -O1 -w -I /repo/src mutation/demo.cpp $SRCS_O -llemon -o /tmp/demo_o_$name 2>/dev/null &
wait
timeout 120 /tmp/demo_m_$name >/dev/null 2>&1; rm=$?
timeout 120 /tmp/demo_o_$name >/dev/null 2>&1; ro=$?
rm -f /tmp/demo_m_$name /tmp/demo_o_$name
echo "$name: ctest='$ct' demo_with_change_rc=$rm demo_unchanged_rc=$ro"
if [ "$rm" != "0" ] && [ "$ro" = "0" ] && echo "$ct" | grep -q "100% tests passed"; then
  cp mutation/patch.diff mutation/demo.cpp $out/; cp mutation/README.txt $out/README.txt 2>/dev/null
  echo CONFIRMED
else echo NOT-CONFIRMED; fi
