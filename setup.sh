#!/bin/sh
# nothing to build: checks that the tools the checks need are present
for t in clang++-14 opt-14 g++ z3 cvc5 python3-vt; do command -v $t >/dev/null || { echo "missing $t"; exit 1; }; done
python3-vt -c "import z3" || exit 1
exit 0
