# Property table: harnesses, bounds per tier, assumptions.  Read by ./check.
STD_ASSUME = [
  'clang-14 lowering of the repository sources to LLVM IR and its UBSan instrumentation define the semantics that is executed',
  'stub models of std containers/algorithms (stubs/include/vstl_base.h): fixed capacity VCAP, insertion-sort std::sort, sorted-array priority_queue; validated per run by native differential replay',
  'allocation failure out of scope (containers are inline)',
  'z3 4.x/5.x decides every VC; sampled discharged VCs re-decided by cvc5',
]
P = {}
P['C12'] = dict(
  level_text='For every segment, every insertion sequence of up to N cells (widths enumerated, targets and segment bounds symbolic up to 2^22) the solver shows on the real RowLegalizer code: query cost == performed cost, positions ordered/non-overlapping/inside, optimal against an arbitrary symbolic competitor placement, reported costs sum to the placement cost, no UB/assert/contract violation. Universally quantified over coordinates, which tests cannot enumerate.',
  design_ref='DESIGN.md section 3 C12',
  text=dict(bounds=dict(quick='N<=3 cells, widths 1..3 enumerated, and wide cells (H12W: widths 1500 or 3000, width x distance products beyond 2^31), segment and targets symbolic |v|<=2^22 (targets 2^23), VCAP=8',
                        thorough='N<=4 cells, widths 1..3 enumerated (N<=3: symbolic 1..3 as well), segment and targets symbolic |v|<=2^22'),
            outside='more than 4 cells; widths above 3; coordinates beyond 2^22'),
  assumptions=STD_ASSUME + ['cells are inserted only while remainingSpace() >= width (the documented precondition, assumed before each push)'],
  harnesses=[
    dict(name='H12', src='C12_rowleg.cpp', covers=['all pushed'], defines={'VCAP': 10, 'NMAX': 3, 'WMAX': 3}, cfg=dict(fp='exact'),
         thorough=dict(defines={'NMAX': 4})),
    dict(name='H12W', src='C12_rowleg.cpp', covers=['all pushed'], defines={'VCAP': 10, 'NMAX': 3, 'WMAX': 2, 'WSCALE': 1500}, cfg=dict(fp='exact')),
  ])

P['C14'] = dict(
  design_ref='DESIGN.md section 3 C14',
  level_text='For every instance inside the bounds the solver shows on the real Transportation1d code: solve() returns without throwing a valid plan whose cost is minimal against an arbitrary symbolic competitor plan; assign() returns one in-range, positive-demand sink per source, agrees with the plan on unsplit sources, and violates no container contract (zero supplies/demands included); also after balanceDemand. Family A: positions symbolic (|v|<=1e8, unsorted, duplicates), quantities enumerated; family B: quantities symbolic, position patterns enumerated.',
  text=dict(bounds=dict(quick='family A: <=2 sources x <=2 sinks, supplies/demands enumerated 0..2, 1 source x <=3 sinks with quantities 0..1, 3 unit sources x 3 sinks given in non-decreasing order with demands 1..2 (no balancing), and 2 sources x 4 sorted sinks with four tight quantity shapes, positions symbolic |v|<=1e8; family B: 2x2, positions enumerated 0..2, quantities symbolic 0..2^20',
                        thorough='family A: <=3x3, quantities 0..2; family B: <=3x2 positions 0..2 quantities symbolic'),
            outside='more than 3 sources or sinks; quantities above the enumerated range in family A; positions beyond 1e8'),
  assumptions=STD_ASSUME + ['precondition of the property: total supply <= total demand and at least one sink with positive demand', 'competitor plans are integral (sufficient: transportation polytope is integral)'],
  harnesses=[
    dict(name='H14A', src='C14_transport1d.cpp', covers=['precondition holds', 'end'], defines={'VCAP': 12, 'NS': 2, 'NK': 2, 'QMAX': 2, 'FAMILY_A': None}, cfg=dict(fp='exact'),
         thorough=dict(defines={'NS': 3, 'NK': 3})),
    dict(name='H14A3', src='C14_transport1d.cpp', covers=['precondition holds', 'end'], defines={'VCAP': 12, 'NS': 1, 'NK': 3, 'QMAX': 1, 'FAMILY_A': None}, cfg=dict(fp='exact')),
    dict(name='H14A33', src='C14_transport1d.cpp', covers=['precondition holds', 'end'], defines={'VCAP': 12, 'NS': 3, 'NK': 3, 'QMAX': 2, 'SMAX': 0, 'DMIN': 1, 'NOBALANCE': None, 'ONLYFULL': None, 'SORTEDSINKS': None, 'FAMILY_A': None}, cfg=dict(fp='exact'), split=3),
    dict(name='H14A24', src='C14_transport1d.cpp', covers=['precondition holds', 'end'], defines={'VCAP': 12, 'NS': 2, 'NK': 4, 'QMAX': 3, 'SHAPES24': None, 'NOBALANCE': None, 'SORTEDSINKS': None, 'FAMILY_A': None}, cfg=dict(fp='exact'), split=3),
    dict(name='H14B', src='C14_transport1d.cpp', covers=['precondition holds', 'end'], defines={'VCAP': 12, 'NS': 2, 'NK': 2, 'PRANGE': 3, 'QLIM': 1048576, 'FAMILY_B': None}, cfg=dict(fp='exact'),
         thorough=dict(defines={'NS': 3, 'NK': 2})),
  ])

P['C13'] = dict(
  design_ref='DESIGN.md section 3 C13',
  level_text='For every instance inside the bounds the solver shows on the real TransportationProblem / successive-shortest-path code: solve() returns without throwing, allocations are non-negative, every source is fully allocated, no sink exceeds its capacity, and the total cost is minimal against an arbitrary symbolic competitor plan; toAssignment gives each source a sink receiving most of it; also after increaseCapacity. Family A: costs symbolic in the documented fixed-point range, quantities enumerated; family B: quantities symbolic, costs enumerated. Inductive argument for larger instances (T, S): from an ARBITRARY optimal intermediate state of the solver with 3 sinks (symbolic costs, any sources present in the full sinks, optimality given by symbolic sink potentials) updateTree() yields the true shortest move-chain costs with parents realising them (Bellman conditions), and one sendSource(src, bestSink(src), q) of a new source keeps the books (allocations, remaining capacities) and leaves a tree that satisfies the same conditions for the NEW state, whether or not the code recomputed it - the shortest-chain invariant on which the minimality of successive shortest paths rests is inductive.',
  text=dict(bounds=dict(quick='family A: <=2 sources x <=2 sinks, capacities/demands enumerated 1..2, integer costs symbolic in [0, INT_MAX/4/sinks]; family B: 2x2, costs enumerated 0..2, quantities symbolic 1..6 (the number of solver paths grows with the quantity range: the algorithm is pseudo-polynomial); Q: toAssignment on an arbitrary allocation matrix, <=2 sources x <=3 sinks, shares symbolic 0..2^40; T: 3 sinks (1 or 2 full), 2 sources each present or not in each sink, costs symbolic; S: 3 sinks of which 2 full, 2 sources present or not in each full sink + 1 new source of demand 1..2, free capacities 1..2',
                        thorough='family A: <=3 sources x <=3 sinks, quantities 1..2; family B: 2x2 quantities symbolic 1..16, 3x2 quantities 1..6 costs 0..1; T: 3 sources; S: also 1 full sink'),
            outside='end-to-end optimality for more than 3 sources or sinks (the property quantifies up to 16 sinks; larger instances are only covered through the 3-sink inductive step, whose extension to more sinks is not checked); float cost constructor (scaling kernel only, see C07); quantities above the enumerated range in family A'),
  assumptions=STD_ASSUME + ['precondition: total demand <= total capacity (possibly after increaseCapacity), positive demands/capacities, costs within [0, INT_MAX/4/nbSinks] as produced by costsFromIntegers', 'competitor plans are integral (sufficient: transportation polytope is integral)'],
  harnesses=[
    dict(name='H13A', src='C13_transport.cpp', covers=['precondition holds', 'end'], defines={'VCAP': 6, 'NS': 2, 'NK': 2, 'QMAX': 2, 'FAMILY_A': None}, cfg=dict(fp='exact'),
         thorough=dict(defines={'NS': 3, 'NK': 3})),
    dict(name='H13Q', src='C13_transport.cpp', covers=['precondition holds', 'end'], defines={'VCAP': 6, 'ASSIGNONLY': None}, cfg=dict(fp='exact')),
    dict(name='H13T', src='C13_tree.cpp', covers=['state built', 'end'], defines={'VCAP': 8, 'NSRC': 2}, cfg=dict(fp='exact', time_budget=120), thorough=dict(defines={'NSRC': 3})),
    dict(name='H13S', src='C13_tree.cpp', covers=['state built', 'sent', 'end'], defines={'VCAP': 8, 'NSRC': 3, 'SENDSTEP': None, 'MINFULL': 2}, cfg=dict(fp='exact', time_budget=150), thorough=dict(defines={'MINFULL': 1})),
    dict(name='H13B', src='C13_transport.cpp', covers=['precondition holds', 'end'], defines={'VCAP': 6, 'NS': 2, 'NK': 2, 'CRANGE': 3, 'QLIM': 6, 'FAMILY_B': None}, cfg=dict(fp='exact', merge=False),
         thorough=dict(defines={'QLIM': 16})),
    dict(name='H13B3', src='C13_transport.cpp', tiers=('thorough',), covers=['precondition holds', 'end'], defines={'VCAP': 6, 'NS': 3, 'NK': 2, 'CRANGE': 2, 'QLIM': 6, 'FAMILY_B': None}, cfg=dict(fp='exact', merge=False)),
  ])

LIBSRC = ['parameters.cpp', 'export.cpp', 'place_global/density_grid.cpp', 'place_global/density_legalizer.cpp', 'place_global/net_model.cpp', 'place_global/place_global.cpp',
          'place_global/transportation.cpp', 'place_global/transportation_1d.cpp', 'place_detailed/abacus_legalizer.cpp', 'place_detailed/detailed_placement.cpp',
          'place_detailed/incr_net_model.cpp', 'place_detailed/legalizer.cpp', 'place_detailed/place_detailed.cpp', 'place_detailed/row_legalizer.cpp',
          'place_detailed/row_neighbourhood.cpp', 'place_detailed/tetris_legalizer.cpp', 'coloquinte.cpp']
def lib_except(*ex): return [f for f in LIBSRC if f not in ex]
BOOST_ASSUME = 'boost::polygon 90-degree set difference + get_rectangles modelled for one positive rectangle and holes (vertical slicing, stubs/include/boost/polygon/polygon.hpp); validated per run against real boost by native replay of sample paths'
P['C15'] = dict(
  design_ref='DESIGN.md section 3 C15',
  level_text='For every row and every set of up to K obstacle rectangles (overlapping, partial height, touching, enclosing, degenerate, inverted) with symbolic coordinates the solver shows on the real Row::freespace code (against a model of boost::polygon): segments non-empty, full height, inside the row, disjoint, orientation kept, and for an ARBITRARY symbolic column q: q lies in a returned segment iff q is in the row and no non-degenerate obstacle meeting the row interior covers q. Circuit::computeRows is shown to pass exactly the extra obstacles plus the placed footprint of the cells that are fixed and obstructions (flags and orientations enumerated).',
  text=dict(bounds=dict(quick='freespace: 1 row, <=1 obstacle, coordinates symbolic |v|<=2^22; computeRows: 1 cell (flags enumerated, 8 orientations symbolic), 1 row, <=1 extra obstacle, |v|<=64',
                        thorough='freespace: <=2 obstacles; computeRows: 2 cells, at most 2 obstacles in total'),
            outside='more than 2 obstacles per row; rows of non-positive width/height; boost internals (modelled)'),
  assumptions=STD_ASSUME + [BOOST_ASSUME, 'rows have positive width and height'],
  harnesses=[
    dict(name='H15A', src='C15_freespace.cpp', covers=['freespace computed', 'end'], defines={'VCAP': 8, 'NOBS': 1, 'H15A': None}, cfg=dict(fp='exact'), split=4, native_srcs=lib_except('coloquinte.cpp', 'parameters.cpp'),
         thorough=dict(defines={'NOBS': 2, 'VCAP': 10})),
    dict(name='H15B', src='C15_freespace.cpp', covers=['end'], defines={'VCAP': 12, 'H15B': None, 'NC': 1, 'MAXOBS': 2}, cfg=dict(fp='exact'), split=5, native_srcs=lib_except('coloquinte.cpp', 'parameters.cpp'),
         thorough=dict(defines={'NC': 2})),
  ])

P['C09'] = dict(
  design_ref='DESIGN.md section 3 C09',
  level_text='Solver-checked on the real Circuit / IncrNetModel code: (A) for all 8 orientations and symbolic cell size and pin offset (|v|<=2^22) pinXOffset/pinYOffset/placedWidth/placedHeight equal the DEF rotation/mirroring oracle (written as a linear map plus re-boxing, independent of the implementation\'s flip logic); (B) Circuit::hpwl equals the from-scratch sum of bounding-box half-perimeters for symbolic positions, sizes, orientations, offsets, repeated cells, empty and single-pin nets; (C) IncrNetModel built for an arbitrary subset of cells (others fixed pins) has the from-scratch value, and after each of a sequence of symbolic updateCellPos calls still has it (check() passes).',
  text=dict(bounds=dict(quick='A: 1 cell 1 pin; B: 2 cells, <=2 nets x <=2 pins; C: 3 cells, <=2 nets x <=3 pins, every subset, 2 updates; all coordinates symbolic |v|<=2^22',
                        thorough='B: <=2 nets x <=3 pins; C: 3 updates'),
            outside='more nets/pins/cells than stated; y topology is the same code with x/y swapped and is covered through B only'),
  assumptions=STD_ASSUME + ['IncrNetModel updates are orientation-preserving (the documented scope of the model)'],
  harnesses=[
    dict(name='H09A', src='C09_wirelength.cpp', covers=['end'], defines={'VCAP': 6, 'H09A': None}, cfg=dict(fp='exact'), native_srcs=lib_except('coloquinte.cpp', 'parameters.cpp', 'place_detailed/incr_net_model.cpp')),
    dict(name='H09B', src='C09_wirelength.cpp', covers=['end'], defines={'VCAP': 6, 'H09B': None, 'NN': 2, 'NP': 2}, cfg=dict(fp='exact'), native_srcs=lib_except('coloquinte.cpp', 'parameters.cpp', 'place_detailed/incr_net_model.cpp'),
         thorough=dict(defines={'NP': 3, 'VCAP': 8})),
    dict(name='H09C', src='C09_wirelength.cpp', covers=['end'], defines={'VCAP': 8, 'H09C': None, 'NN': 2, 'NP': 3, 'NUPD': 2}, cfg=dict(fp='exact'), native_srcs=lib_except('coloquinte.cpp', 'parameters.cpp', 'place_detailed/incr_net_model.cpp'),
         quick=dict(defines={'NN': 1}), thorough=dict(defines={'NUPD': 3})),
  ])

ALL_IR = ['place_global/transportation_1d.cpp', 'place_detailed/abacus_legalizer.cpp', 'place_detailed/tetris_legalizer.cpp']
LEMON_ASSUME = 'lemon::NetworkSimplex modelled by its contract: run() returns OPTIMAL and potential() is an arbitrary OPTIMAL dual solution of the min-cost-flow problem the repository built (dual feasible, with a complementary primal flow satisfying conservation)'
EIGEN_ASSUME = 'Eigen conjugate gradient modelled by its contract: returns an arbitrary vector of finite floats of the right size'
P['C19'] = dict(
  design_ref='DESIGN.md section 3 C19',
  level_text='Solver-checked on the real code: ColoquinteParameters(effort) for EVERY 32-bit effort outside 1..9 (symbolic) throws and no UB trap (table index, assert) fires first; efforts 1..9 construct parameters that pass check(); every Circuit setter with every wrong length throws and writes nothing (object write-protected); addNet/setNets refuse any out-of-range pin cell index (symbolic over the whole int range) and inconsistent lengths with an exception; setNets accepts arbitrary symbolic net limits only if they start at 0, do not decrease and end at the number of pins; the window parameters of the rough legalization (three sizes and three overlaps, all symbolic, in combination) are accepted only inside their documented ranges with a positive stride for every enabled pass, and every set inside the ranges is accepted; a parameter set rejected by the check makes legalize/placeDetailed/placeGlobal throw with the circuit (public state) write-protected.',
  text=dict(bounds=dict(quick='effort: all 2^32 values; setters: 10 setters x lengths 0..4 on a 2-cell circuit; pin indices: all ints; net limits: 3 symbolic limits in [-2,5] over 2 or 3 pins; window parameters: 6 symbolic ints in [-3,70]; 8 rejected fields x 3 stages', thorough='same'),
            outside='parameter fields other than the window parameters and the 8 sampled rejected ones; combinations of several rejected fields of other groups'),
  assumptions=STD_ASSUME + ['libm (exp/log/pow/round) evaluated natively on concrete arguments'],
  harnesses=[
    dict(name='H19A', src='C19_invalid.cpp', covers=['end'], defines={'VCAP': 6, 'H19A': None}, cfg=dict(fp='exact'), ir_srcs=ALL_IR, native_srcs=ALL_IR, native_flags=['-llemon']),
    dict(name='H19B', src='C19_invalid.cpp', covers=['end'], defines={'VCAP': 6, 'H19B': None}, cfg=dict(fp='exact'), ir_srcs=ALL_IR, native_srcs=ALL_IR, native_flags=['-llemon']),
    dict(name='H19C', src='C19_invalid.cpp', covers=['end'], defines={'VCAP': 6, 'H19C': None}, cfg=dict(fp='exact'), ir_srcs=ALL_IR, native_srcs=ALL_IR, native_flags=['-llemon']),
    dict(name='H19E', src='C19_invalid.cpp', covers=['end'], defines={'VCAP': 6, 'H19E': None}, cfg=dict(fp='exact'), ir_srcs=ALL_IR, native_srcs=ALL_IR, native_flags=['-llemon']),
    dict(name='H19D', src='C19_invalid.cpp', covers=['end'], defines={'VCAP': 6, 'H19D': None}, cfg=dict(fp='exact'), ir_srcs=ALL_IR, native_srcs=ALL_IR, native_flags=['-llemon']),
  ])

P['C10'] = dict(
  design_ref='DESIGN.md section 3 C10',
  level_text='Solver-checked on the real Circuit::legalize / placeDetailed with C++ exceptions executed by the engine: in every scenario (normal, infeasible legalization, rejected parameters, callback throwing at each callback index of the run) each of the 7 structural setters called inside the callback throws and writes nothing (circuit write-protected), and after the call, however it ended, every setter succeeds again, check() passes, a failed legalization has left x/y/orientation unchanged and a further placement call works. Initial x positions symbolic.',
  text=dict(bounds=dict(quick='2 cells, 2 rows, initial x symbolic in [-8,48], stages legalize and placeDetailed (1 pass, swaps only), 7 setters, every callback index', thorough='same'),
            outside='placeGlobal beyond parameter rejection (see C19 H19D); more passes / shift and reordering callbacks; larger circuits'),
  assumptions=STD_ASSUME + [BOOST_ASSUME, 'legalization processing order over-approximated (FP havoc: every outcome of each float key comparison explored)'],
  harnesses=[
    dict(name='H10', src='C10_busy.cpp', covers=['placement call ended', 'end'], defines={'VCAP': 8}, cfg=dict(fp='havoc'), ir_srcs=ALL_IR, native_srcs=ALL_IR, native_flags=['-llemon']),
  ])

C01_BASE = {'VCAP': 8, 'NC': 2, 'NFIXED': 0, 'NROWS': 2, 'TALLCHOICES': 2, 'POLCHOICES': 5, 'ORICHOICES': 1, 'ROWPATTERNS': 2, 'GAPCHOICES': 1, 'PARAMSETS': 1}
P['C01'] = dict(
  design_ref='DESIGN.md section 3 C01',
  level_text='Circuit::legalize executed end to end by the solver-backed executor on tiny circuits with symbolic geometry: whenever it returns, every movable cell has its bottom edge on a row, each row-high strip inside one free segment of computeRows(), no two movable cells overlap, orientations are as the polarity prescribes; when it throws the placement is unchanged; it does not throw when success is trivial. Widths, initial positions (far outside the rows included), row width, fixed obstruction geometry are symbolic; cell kinds, polarities, row orientation patterns and parameter sets are enumerated.',
  text=dict(bounds=dict(quick='2 movable cells (cell 0 row-high or 2 rows high), widths symbolic 1..12, x symbolic in [-64,128], y enumerated in {-7,6,19}, 2 rows (N,FS) of symbolic width 8..64, cell 0 all 5 polarities, cell 1 ANY, default ordering parameters; H01T: both cells two rows high (widths 9 and 4), 1 fixed obstruction of symbolic width and x covering all rows (two segments per row), polarity ANY; H01G: one two-row-high cell, 3 rows with an optional one-row gap between rows 1 and 2; H01P: one two-row-high cell of width 9, 2 rows, 1 fixed obstruction of symbolic width and x covering part of ONE of the rows (stacked rows with different free intervals)',
                        thorough='H01E: 4 row patterns, 8 orientations for ANY cells, 5x5 polarities, 3 ordering parameter sets; H01EY: y symbolic too (3 polarities); H01EF: + 1 fixed cell (obstruction flag, symbolic size/position), 3 rows with optional gap; H01E3: 3 movable cells (widths 4/9)'),
            outside='more than 3 movable cells / 3 rows / 1 fixed cell; several segments per y other than those produced by one obstruction; efforts other than 1 (legalization parameters do not depend on the effort)'),
  assumptions=STD_ASSUME + [BOOST_ASSUME, 'legalization processing order over-approximated: every outcome of each float key comparison is explored (FP havoc), so the claims hold for any processing order'],
  harnesses=[
    dict(name='H01E', src='C01_legalize.cpp', covers=['legalize ended', 'legalize returned', 'legalize threw', 'end'], defines=dict(C01_BASE, YCHOICE=None, POL1CHOICES=1, ROWPATTERNS=1), cfg=dict(fp='havoc'), split=2, ir_srcs=ALL_IR, native_srcs=ALL_IR, native_flags=['-llemon'],
         thorough=dict(defines={'ROWPATTERNS': 4, 'ORICHOICES': 8, 'POL1CHOICES': 5, 'PARAMSETS': 3})),
    dict(name='H01T', src='C01_legalize.cpp', covers=['legalize ended', 'legalize returned', 'end'], defines=dict(C01_BASE, YCHOICE=None, WCHOICE=None, NFIXED=1, FIXEDFULL=None, TALLALL=2, POLCHOICES=1, POL1CHOICES=1, ROWPATTERNS=1, VCAP=10), cfg=dict(fp='havoc', time_budget=60), split=3, ir_srcs=ALL_IR, native_srcs=ALL_IR, native_flags=['-llemon']),
    dict(name='H01G', src='C01_legalize.cpp', covers=['legalize ended', 'legalize returned', 'legalize threw', 'end'], defines=dict(C01_BASE, NC=1, YCHOICE=None, WCHOICE=None, TALLALL=2, NROWS=3, GAPCHOICES=2, GAPFROM=2, POLCHOICES=2, POL1CHOICES=1, ROWPATTERNS=1), cfg=dict(fp='havoc'), ir_srcs=ALL_IR, native_srcs=ALL_IR, native_flags=['-llemon']),
    dict(name='H01P', src='C01_legalize.cpp', covers=['legalize ended', 'legalize returned', 'legalize threw', 'end'], defines=dict(C01_BASE, NC=1, YCHOICE=None, WCHOICE=None, TALLALL=2, NFIXED=1, FIXEDPART=None, POLCHOICES=1, POL1CHOICES=1, ROWPATTERNS=1, VCAP=10), cfg=dict(fp='havoc', time_budget=60), ir_srcs=ALL_IR, native_srcs=ALL_IR, native_flags=['-llemon']),
    dict(name='H01EY', src='C01_legalize.cpp', tiers=('thorough',), covers=['legalize ended', 'end'], defines=dict(C01_BASE, POLCHOICES=3, ROWPATTERNS=1), cfg=dict(fp='havoc', time_budget=900), split=4, ir_srcs=ALL_IR, native_srcs=ALL_IR, native_flags=['-llemon']),
    dict(name='H01EF', src='C01_legalize.cpp', tiers=('thorough',), covers=['legalize ended', 'end'], defines=dict(C01_BASE, YCHOICE=None, NFIXED=1, NROWS=3, GAPCHOICES=2, POLCHOICES=2, TALLCHOICES=2, VCAP=10), cfg=dict(fp='havoc', time_budget=900), split=3, ir_srcs=ALL_IR, native_srcs=ALL_IR, native_flags=['-llemon']),
    dict(name='H01E3', src='C01_legalize.cpp', tiers=('thorough',), covers=['legalize ended', 'end'], defines=dict(C01_BASE, NC=3, VCAP=10, YCHOICE=None, WCHOICE=None, POLCHOICES=2, POL1CHOICES=2), cfg=dict(fp='havoc', time_budget=900), split=2, ir_srcs=ALL_IR, native_srcs=ALL_IR, native_flags=['-llemon']),
  ])

P['C02'] = dict(
  design_ref='DESIGN.md section 3 C02',
  level_text='(A) One-step induction on the real DetailedPlacement: from an ARBITRARY legal placement (symbolic segments, widths, positions; built by the real constructor) any single swap or insert accepted by canSwap/canInsert leaves a state for which check() passes and the directly stated invariant holds (inside segment, no overlap, y = row y, ignored cells untouched, widths unchanged, orientation prescribed and never INVALID) - hence every sequence of moves. (D) the shift pass runShiftsOnCells under the network-simplex contract (any optimal dual solution of the graph the repository built, characterised by dual feasibility + a complementary primal flow): ordering, spacing and row boundaries kept, cells outside the window untouched, for full and partial windows. (R) the row reordering pass runReorderingOnCells (real RowReordering branch and bound) on a four-cell window over two stacked rows: it does not fail, the checks of the repository pass, the exported placement is legal including polarity/orientation, and cells outside the window do not move. (W) the window drivers runShifts and runReordering (row neighbourhoods, overlapping windows) called with arbitrary numbers of rows (1..3) and maximum cells (2, 3, 5) on a three-row placement neither fail nor leave an illegal placement nor increase the wirelength. (E, thorough) Circuit::placeDetailed end to end with a callback evaluating the legality predicate at every Detailed step and on return.',
  text=dict(bounds=dict(quick='A: 2 segments (split row or stacked, N/FS), 3 cells incl. an optionally ignored one, widths 1..6, positions symbolic, cell 0 any polarity; R: rows N/FS/N of symbolic width 24..48, window on rows 0-1 or 1-2, 2+2 window cells (widths 3,5,2,4) at symbolic offsets 0..6, with or without a boundary cell ending each row, cell 0 ANY or the restrictive polarity of its row, fixed terminal at a symbolic position (also over the rows); W: 3 rows of width 30, 2+2+1 cells, concrete positions for the shift windows, symbolic start and terminal for the reordering windows; E: see harness list', thorough='A: 4 cells'),
            outside='more cells/segments; network simplex internals (modelled by contract); more than one pass end to end'),
  assumptions=STD_ASSUME + [BOOST_ASSUME, LEMON_ASSUME],
  harnesses=[
    dict(name='H02A', src='C02_step.cpp', covers=['constructed', 'swapped', 'inserted', 'end'], defines={'VCAP': 8, 'NCELLS': 3}, cfg=dict(fp='real'), ir_srcs=ALL_IR, native_srcs=ALL_IR, native_flags=['-llemon'],
         thorough=dict(defines={'NCELLS': 4})),
    dict(name='H02F', src='C02_rows.cpp', covers=['circuit built', 'end'], defines={'VCAP': 12}, cfg=dict(fp='exact'), ir_srcs=ALL_IR, native_srcs=ALL_IR, native_flags=['-llemon']),
    dict(name='H02D', src='C05_shift.cpp', covers=['placer built', 'end'], defines={'VCAP': 16, 'LEMON_POTLIM': 4096, 'LEMON_FLOWMAX': 3}, cfg=dict(fp='havoc', time_budget=100), ir_srcs=ALL_IR, native_srcs=ALL_IR, native_flags=['-llemon']),
    dict(name='H02R', src='C02_reorder.cpp', covers=['placer built', 'end'], defines={'VCAP': 16}, cfg=dict(fp='havoc', time_budget=300, merge=False), split=3, ir_srcs=ALL_IR, native_srcs=ALL_IR, native_flags=['-llemon']),
    dict(name='H02W', src='C02_window.cpp', covers=['placer built', 'end'], defines={'VCAP': 40, 'LEMON_POTLIM': 4096, 'LEMON_FLOWMAX': 3}, cfg=dict(fp='havoc', time_budget=200, merge=False, max_steps=12000000), ir_srcs=ALL_IR, native_srcs=ALL_IR, native_flags=['-llemon']),
    dict(name='H02E', src='C02_e2e.cpp', tiers=('thorough',), covers=['placeDetailed ended', 'end'],
         defines={'VCAP': 10, 'NC': 3, 'YCELLS': 2, 'TALLCHOICES': 2, 'POLCHOICES': 2, 'ORICHOICES': 1, 'NNETS': 2, 'SHIFTCELLS': 0, 'REORDERCELLS': 0}, cfg=dict(fp='havoc'), split=3,
         ir_srcs=ALL_IR, native_srcs=ALL_IR, native_flags=['-llemon'],
         thorough=dict(defines={'POLCHOICES': 3, 'ORICHOICES': 4}, cfg=dict(time_budget=300))),
  ])

P['C05'] = dict(
  design_ref='DESIGN.md section 3 C05',
  level_text='One-pass induction on the real DetailedPlacer: from an ARBITRARY legal placement of a tiny circuit (symbolic x positions and row width; rows N/N or N/FS; one cell optionally with SAME polarity so that its orientation and pin offsets change with the row) each pass primitive (swaps in a row, amplified swaps between rows, inserts in a row, inserts between rows) leaves a placement whose incremental value did not increase, whose REAL half-perimeter wirelength (public hpwl() with orientation-dependent pin offsets, after export) is not above the value before the pass, and which is legal. The shift pass (H05S) is executed under the network-simplex contract (optimal dual solution = dual feasible + complementary primal flow): it never increases the wirelength and the incremental value equals the real wirelength afterwards. The row reordering pass (H05R, real RowReordering on a four-cell window over two rows) never increases the wirelength either. Successive callbacks and the final result of placeDetailed are compositions of such passes.',
  text=dict(bounds=dict(quick='3 row-high cells (widths 3,6,3) on 2 rows; x of cell 0 symbolic in [0,40] and its row enumerated, x of the others enumerated in {0,9}; row width symbolic 12..40; 1 net (3 pins, one cell repeated with pins at both ends); polarity of cell 0 in {ANY,SAME}; 4 pass primitives', thorough='2 nets (2 and 3 pins), other cells x in {0,9,18,27}, 2 pin-offset sets'),
            outside='reordering pass; more cells; end-to-end composition is argued by induction, not executed'),
  assumptions=STD_ASSUME + [BOOST_ASSUME, LEMON_ASSUME],
  harnesses=[
    dict(name='H05P', src='C05_pass.cpp', covers=['placer built', 'end'], defines={'VCAP': 10, 'NC': 3, 'POLCHOICES': 2, 'NNETS': 1}, cfg=dict(fp='havoc', time_budget=60), ir_srcs=ALL_IR, native_srcs=ALL_IR, native_flags=['-llemon'],
         thorough=dict(defines={'NNETS': 2, 'XCHOICES': 4, 'OFFCHOICES': 2}, cfg=dict(time_budget=600))),
    dict(name='H05R', src='C02_reorder.cpp', covers=['placer built', 'end'], defines={'VCAP': 16}, cfg=dict(fp='havoc', time_budget=300, merge=False), split=3, ir_srcs=ALL_IR, native_srcs=ALL_IR, native_flags=['-llemon']),
    dict(name='H05S', src='C05_shift.cpp', covers=['placer built', 'end'], defines={'VCAP': 16, 'LEMON_POTLIM': 4096, 'LEMON_FLOWMAX': 3}, cfg=dict(fp='havoc', time_budget=100), ir_srcs=ALL_IR, native_srcs=ALL_IR, native_flags=['-llemon']),
  ])

P['C04'] = dict(
  design_ref='DESIGN.md section 3 C04',
  level_text='(T) cellOrientationInRow / oppositeRowOrientation checked against the documented table for every polarity x orientation (symbolic, loop-free). (L) Circuit::legalize end to end (C01 harness restricted to polarity coverage: all 5 polarities, odd and even row counts, 4 row-orientation patterns): every placed cell has exactly the prescribed orientation, never INVALID, ANY cells keep theirs. (D) inductive step on DetailedPlacement (C02 harness): any accepted swap/insert leaves every cell with the prescribed, non-INVALID orientation.',
  text=dict(bounds=dict(quick='T: all 50 inputs; L: 1 cell (one or two rows high, 5 polarities, symbolic width and x), 2 rows, 4 orientation patterns, y enumerated; M: two two-row-high cells (widths 9 and 4), cell 0 ANY/SAME/OPPOSITE, 3 rows N/FS/N; D: 2 segments, 3 cells, cell 0 any polarity', thorough='L: 2 cells, 3 rows with gap, 5x5 polarities; D: 4 cells'),
            outside='as C01 / C02'),
  assumptions=STD_ASSUME + [BOOST_ASSUME, 'legalization processing order over-approximated (FP havoc)'],
  harnesses=[
    dict(name='H04T', src='C04_table.cpp', covers=['end'], defines={'VCAP': 4}, cfg=dict(fp='exact'), native_srcs=lib_except('parameters.cpp'), native_flags=['-llemon']),
    dict(name='H04M', src='C01_legalize.cpp', covers=['legalize ended', 'legalize returned', 'end'], defines=dict(C01_BASE, YCHOICE=None, WCHOICE=None, TALLALL=2, NROWS=3, POLCHOICES=3, POL1CHOICES=1, ROWPATTERNS=1, VCAP=10), cfg=dict(fp='havoc', time_budget=60), split=3, ir_srcs=ALL_IR, native_srcs=ALL_IR, native_flags=['-llemon']),
    dict(name='H04L', src='C01_legalize.cpp', covers=['legalize ended', 'legalize returned', 'end'], defines=dict(C01_BASE, NC=1, YCHOICE=None, POL1CHOICES=1, ROWPATTERNS=4), cfg=dict(fp='havoc'), ir_srcs=ALL_IR, native_srcs=ALL_IR, native_flags=['-llemon'],
         thorough=dict(defines={'NC': 2, 'WCHOICE': None, 'POL1CHOICES': 5, 'NROWS': 3, 'GAPCHOICES': 2})),
    dict(name='H04D', src='C02_step.cpp', covers=['constructed', 'swapped', 'inserted', 'end'], defines={'VCAP': 8, 'NCELLS': 3}, cfg=dict(fp='havoc'), ir_srcs=ALL_IR, native_srcs=ALL_IR, native_flags=['-llemon'],
         thorough=dict(defines={'NCELLS': 4})),
  ])

P['C11'] = dict(
  design_ref='DESIGN.md section 3 C11',
  level_text='Decomposition: (A) the ordering kernel computeCellOrder keeps two non-overlapping cells of one row in left-to-right order for symbolic geometry |v|<2^20 and for parameter sets accepted by the check (float arithmetic in the linear error model fl(e)=e+eta; a failure is searched with exact z3 floating point); (B) AbacusLegalizer, given a symbolic legal placement (split row + second row, symbolic segment bounds, widths, positions up to 2^20) whose cells are presented left to right within each row, places every cell exactly where it was. (A) and (B) compose to the property for the parameter sets where (A) holds.',
  text=dict(bounds=dict(quick='A: 2 cells, orderingWidth in {0, 0.2, 0.5, 1} and the rejected values {-1, 1.5, 2}, orderingY symbolic in its accepted range; B: 2 cells on 3 segments', thorough='B: 3 cells'),
            outside='multi-row cells (excluded by the property); more than 3 cells; coordinates beyond 2^20 (float key no longer exact)'),
  assumptions=STD_ASSUME + ['float arithmetic of the ordering key over-approximated by the linear error model (sound for proofs)'],
  harnesses=[
    dict(name='H11C', src='C11_idempotent.cpp', covers=['end'], defines={'VCAP': 6, 'H11C': None, 'PSETS': 7}, cfg=dict(fp='real', query_timeout_ms=60000, time_budget=120), diff_samples=0, ir_srcs=ALL_IR, native_srcs=ALL_IR, native_flags=['-llemon']),
    dict(name='H11A', src='C11_idempotent.cpp', covers=['end'], defines={'VCAP': 4, 'H11A': None, 'PSETS': 8}, cfg=dict(fp='real', query_timeout_ms=60000), diff_samples=0, ir_srcs=ALL_IR, native_srcs=ALL_IR, native_flags=['-llemon']),
    dict(name='H11B', src='C11_idempotent.cpp', covers=['end'], defines={'VCAP': 8, 'H11B': None, 'NC': 2}, cfg=dict(fp='havoc'), split=2, ir_srcs=ALL_IR, native_srcs=ALL_IR, native_flags=['-llemon'],
         thorough=dict(defines={'NC': 3}, cfg=dict(time_budget=900))),
  ])

P['C16'] = dict(
  design_ref='DESIGN.md section 3 C16',
  level_text='Solver-checked on the real density grid code: (A) DensityGrid(binSize, regions) for symbolic disjoint regions: bin limits span and tile the bounding box, every bin capacity equals the free area inside the bin (independent overlap oracle), the bins account for all free area. (R) one DensityLegalizer::reoptimize step on an arbitrary group of bins (square, line, zig-zag; groups without any capacity included) from an arbitrary distribution of the cells, all float costs unconstrained: every cell stays in exactly one bin and check() passes; (F) DensityGrid::fromIspdCircuit on rows cut by two fixed macros at symbolic places: the bins account exactly for the free row area after the side margin and no bin is negative; (RO) the same step directed into over-full windows (more demand than the window holds: the capacity-increase path of the transportation problem). (B) HierarchicalDensityPlacement under every sequence of up to N operations from {refineX, refineY, coarsenX, coarsenY, redistribution between adjacent bins}: its own check() asserts hold, capacity aggregates exactly, every cell of non-zero (symbolic) demand is in exactly one bin, zero-demand cells in none, the cell-to-bin map is consistent.',
  text=dict(bounds=dict(quick='A: <=2 row regions of height 8 at y in {0,8,16} (a vertical gap is possible) with symbolic x extents in [-30,30], bin size 4 or 7, <=3x3 bins; F: 1 or 2 rows of width 70, macros of width 1..12 and 6 at symbolic x, margin 5, bin size 10; R/RO: 6x2 bins with a zero-capacity block, 3 cells of symbolic demand 1..30; B: grids 1..4 x 1..2 bins, 3 cells with symbolic demand, 3 operations; SC: spreadCoordX on 1x1 / 2x1 bins, 3 cells, 4 concrete demand vectors, targets symbolic in [-1e6,1e6]', thorough='B: 4 operations'),
            outside='the float claim that spread coordinates lie inside the bin is decided for four concrete demand vectors (macro-sized ones whose sum passes 2^31 included) with symbolic targets only (H16SC); with symbolic demands the linear error model cannot close it (harness H16S kept in the source for reference, not registered); whole rough-legalization runs only in the thorough tier (H16C, time-bounded); larger grids'),
  assumptions=STD_ASSUME + ['regions (rows) are pairwise disjoint'],
  harnesses=[
    dict(name='H16A', src='C16_density.cpp', covers=['grid built', 'end'], defines={'VCAP': 8, 'H16A': None, 'NREG': 2, 'YCH': 3}, cfg=dict(fp='havoc'), split=3, ir_srcs=ALL_IR, native_srcs=ALL_IR, native_flags=['-llemon']),
    dict(name='H16B', src='C16_density.cpp', covers=['built', 'end'], defines={'VCAP': 8, 'H16B': None, 'NOPS': 3}, cfg=dict(fp='havoc'), ir_srcs=ALL_IR, native_srcs=ALL_IR, native_flags=['-llemon'],
         thorough=dict(defines={'NOPS': 4})),
    dict(name='H16F', src='C16_density.cpp', covers=['grid built', 'end'], defines={'VCAP': 10, 'H16F': None}, cfg=dict(fp='exact'), ir_srcs=ALL_IR, native_srcs=ALL_IR, native_flags=['-llemon']),
    dict(name='H16SC', src='C16_density.cpp', covers=['spread', 'end'], defines={'VCAP': 8, 'H16S': None, 'CONCDEM': None}, cfg=dict(fp='exact'), ir_srcs=ALL_IR, native_srcs=ALL_IR, native_flags=['-llemon', '-fsanitize=float-cast-overflow'], lib_flags=['-fsanitize=float-cast-overflow']),
    dict(name='H16RO', src='C16_density.cpp', covers=['distributed', 'end'], defines={'VCAP': 8, 'H16R': None, 'OVERFULL': None}, cfg=dict(fp='havoc', time_budget=40), ir_srcs=ALL_IR, native_srcs=ALL_IR, native_flags=['-llemon']),
    dict(name='H16R', src='C16_density.cpp', covers=['distributed', 'end'], defines={'VCAP': 8, 'H16R': None}, cfg=dict(fp='havoc', time_budget=40), ir_srcs=ALL_IR, native_srcs=ALL_IR, native_flags=['-llemon']),
    dict(name='H16C', src='C16_density.cpp', tiers=('thorough',), covers=['built'], defines={'VCAP': 8, 'H16C': None}, cfg=dict(fp='havoc', time_budget=200), split=5, ir_srcs=ALL_IR, native_srcs=ALL_IR, native_flags=['-llemon'],
         thorough=dict(cfg=dict(time_budget=600))),
  ])

P['C17'] = dict(
  design_ref='DESIGN.md section 3 C17',
  level_text='The solve itself is Eigen (environment); what the repository owns is the linear system. Solver-checked on the real NetModel / MatrixCreator code with symbolic real-valued weight and pin offsets: for two-pin nets in the initial star model (movable-movable and movable-fixed) the net model stores the weight unchanged and the assembled entries are exactly w, -w and w*(offset difference) - the system whose solution is the weighted least-squares optimum, so the pull of a net is proportional to its (fractional) weight. Float arithmetic in the linear error model with rounding treated as a function of the exact expression.',
  text=dict(bounds=dict(quick='1 net, 2 pins (one optionally fixed), weight symbolic in [2^-7, 64], offsets in [-1000,1000]; H17C: cell 0 with a weighted fixed-pin net, cell 1 without nets, penalties of strength 0 or symbolic in [0.01,2] on either, added or not: finalize() puts its constant 1e-8 regulariser only on rows without a diagonal contribution (the system-level condition for scaling invariance), and MatrixCreator::solve hands the caller tolerance and iteration limit to the solver unchanged', thorough='same'),
            outside='entry-wise power-of-two scaling invariance of every net model (needs bit-exact float reasoning: declined, harness H17A kept in the source; only the regulariser condition H17C is checked); nets of degree > 2, B2B/clique/light-star weights 1/distance; penalties; the tolerance clause (conjugate-gradient behaviour)'),
  assumptions=STD_ASSUME + [EIGEN_ASSUME, 'float rounding modelled as a function fl(e)=e+eta(e), |eta|<=2^-24 M(e)'],
  harnesses=[
    dict(name='H17C', src='C17_weights.cpp', covers=['end'], defines={'VCAP': 8, 'H17C': None}, cfg=dict(fp='real', query_timeout_ms=60000), diff_samples=0, ir_srcs=ALL_IR, native_srcs=ALL_IR, native_flags=['-llemon']),
    dict(name='H17L', src='C17_weights.cpp', covers=['end'], defines={'VCAP': 24, 'H17L': None}, cfg=dict(fp='real', fp_rel=True, query_timeout_ms=60000), diff_samples=0, ir_srcs=ALL_IR, native_srcs=ALL_IR, native_flags=['-llemon']),
    dict(name='H17B', src='C17_weights.cpp', covers=['end'], defines={'VCAP': 6, 'H17B': None}, cfg=dict(fp='real', query_timeout_ms=60000), ir_srcs=ALL_IR, native_srcs=ALL_IR, native_flags=['-llemon']),
  ])

P['C03'] = dict(
  design_ref='DESIGN.md section 3 C03',
  level_text='Write-protection based frame check, executed by the solver-backed engine on the real entry points: (G) Circuit::placeGlobal end to end on a tiny circuit (Eigen conjugate gradient by contract, every float value unconstrained): position/orientation of the fixed cell, all orientations, sizes, flags, polarities, nets, pin offsets, weights and rows are write-protected for the whole call - any store on any path is a violation, and the values are compared at the public getters afterwards; (L) Circuit::legalize (C01 harness with a fixed cell): sizes, flags, polarities, nets, rows and the fixed cell compared before/after on returning and throwing paths; (D) placeDetailed on returning and throwing paths (C10 harness).',
  text=dict(bounds=dict(quick='G: 2 movable + 1 fixed cell (obstruction flag enumerated), 4 rows, 2 nets, position of the fixed cell symbolic, 1 global placement step (exploration of the float-comparison outcomes cut at 60 s per job: reported as bound hits); L: 1 movable + 1 fixed cell; O: 5 cells with fixed cells interleaved in index order (two layouts), legalize and placeDetailed; D: 2 movable cells', thorough='G: 2 steps'),
            outside='more steps of global placement; larger circuits'),
  assumptions=STD_ASSUME + [BOOST_ASSUME, EIGEN_ASSUME, 'all floating point values unconstrained (FP havoc): the frame condition must hold whatever the numbers are'],
  harnesses=[
    dict(name='H03G', src='C03_global.cpp', covers=['placeGlobal ended', 'end'], defines={'VCAP': 24, 'MAXSTEPS': 1}, cfg=dict(fp='havoc', time_budget=40), split=4, ir_srcs=ALL_IR, native_srcs=ALL_IR, native_flags=['-llemon'],
         thorough=dict(defines={'MAXSTEPS': 2}, cfg=dict(time_budget=900))),
    dict(name='H03L', src='C01_legalize.cpp', covers=['legalize ended', 'end'], defines=dict(C01_BASE, NC=1, NFIXED=1, YCHOICE=None, WCHOICE=None, POLCHOICES=2, TALLCHOICES=2, VCAP=10), cfg=dict(fp='havoc', time_budget=100), split=3, ir_srcs=ALL_IR, native_srcs=ALL_IR, native_flags=['-llemon']),
    dict(name='H03O', src='C03_order.cpp', covers=['end'], defines={'VCAP': 10}, cfg=dict(fp='havoc', time_budget=100), split=2, ir_srcs=ALL_IR, native_srcs=ALL_IR, native_flags=['-llemon']),
    dict(name='H03D', src='C10_busy.cpp', covers=['placement call ended', 'end'], defines={'VCAP': 8}, cfg=dict(fp='havoc'), ir_srcs=ALL_IR, native_srcs=ALL_IR, native_flags=['-llemon']),
  ])

P['C08'] = dict(
  design_ref='DESIGN.md section 3 C08',
  level_text='Schedules are not enumerated; non-interference is decided instead, on the real code executed by the engine: (1) for every explored path of Circuit::placeGlobal the read and write footprints of the two std::async solves of each lower-bound step (bracketed by the std::async model, which decay-copies its arguments as the standard prescribes) are disjoint except for read-read sharing, so every interleaving and both completion orders equal the sequential execution and there is no data race in the repository code; (2) no writable global is defined by the library translation units and no store to a global happens on any explored path of placeGlobal / legalize / placeDetailed (no hidden state between runs); (3) no branch, assertion, observed value or input handed to the linear solver depends on uninitialised memory or on the clock; the random generator is a function of (seed, draw index); (4) relational: the same circuit placed twice by placeGlobal - once observed by a read-only callback, once without - ends on the same coordinates on every explored path, with floats, float operations and the linear solver treated as uninterpreted FUNCTIONS of their operands (whatever the float semantics, a deterministic computation gives both runs the same result).',
  text=dict(bounds=dict(quick='placeGlobal: tiny circuit, 1 step with or without an initial step (2 async pairs per path); relational: two runs of 1 step, export blending 0.5; legalize/placeDetailed: the C10 harness', thorough='2 steps'),
            outside='the thread library and Eigen internals (environment: the solver is a function of its inputs); bitwise identity across machines; the float values themselves'),
  assumptions=STD_ASSUME + [EIGEN_ASSUME, 'std::async(launch::async, f, args...) decay-copies its arguments before the task runs and get() joins'],
  harnesses=[
    dict(name='H08G', src='C03_global.cpp', covers=['placeGlobal ended', 'end'], defines={'VCAP': 24, 'MAXSTEPS': 1, 'INITCH': 2}, cfg=dict(fp='havoc', time_budget=40, scan_globals=True), split=4, ir_srcs=ALL_IR, native_srcs=ALL_IR, native_flags=['-llemon'],
         thorough=dict(defines={'MAXSTEPS': 2}, cfg=dict(time_budget=600))),
    dict(name='H08R', src='C08_relate.cpp', covers=['both runs ended', 'end'], defines={'VCAP': 24}, cfg=dict(fp='uf', merge=False, time_budget=60), split=3, diff_samples=0, ir_srcs=ALL_IR, native_srcs=ALL_IR, native_flags=['-llemon']),
    dict(name='H08D', src='C10_busy.cpp', covers=['placement call ended', 'end'], defines={'VCAP': 8}, cfg=dict(fp='havoc', scan_globals=True), ir_srcs=ALL_IR, native_srcs=ALL_IR, native_flags=['-llemon']),
  ])

P['C06'] = dict(
  design_ref='DESIGN.md section 3 C06',
  level_text='The conjugate-gradient solve is Eigen (environment contract: finite values). Decided on the real code: (E) Circuit::placeGlobal end to end on a tiny circuit with every float value unconstrained: it completes without raising an error on every explored outcome of the float comparisons, issues lower-bound and upper-bound callbacks, and no assert/contract/UB of the integer skeleton fires; (C) blendPlacement + GlobalPlacer::exportPlacement with symbolic coordinates up to 8e6: exact at blending 0 and 1, equal to (1-w)LB + w UB up to float rounding otherwise, exported integer coordinate = centre minus half size, rounded, and the float-to-int conversion cannot overflow (linear float error model).',
  text=dict(bounds=dict(quick='S: spreadCoordX (the coordinates the upper-bound placement exposes) on 1x1 / 2x1 bins, 3 cells, 4 concrete demand vectors incl. macro-sized ones, targets symbolic; E: 2 movable + 1 fixed cell, 4 rows, 3 nets of degree 1 (dangling, on a movable cell), 2 and 3, 1 step; C: 1 cell, orientation N / W / FE (centre refers to the placed size), blending in {0, 1, 0.99, 0.5, 1.5, -0.5}, |coordinates| <= 8e6, sizes <= 4096', thorough='E: 2 steps'),
            outside='"every upper-bound coordinate inside the placement area" and "no NaN": need the float values of spreadCells / the CG solve (declined: float kernel not closed by the error model, Eigen internals); more cells and steps'),
  assumptions=STD_ASSUME + [EIGEN_ASSUME, BOOST_ASSUME],
  harnesses=[
    dict(name='H06S', src='C16_density.cpp', covers=['spread', 'end'], defines={'VCAP': 8, 'H16S': None, 'CONCDEM': None}, cfg=dict(fp='exact'), ir_srcs=ALL_IR, native_srcs=ALL_IR, native_flags=['-llemon', '-fsanitize=float-cast-overflow'], lib_flags=['-fsanitize=float-cast-overflow']),
    dict(name='H06C', src='C06_blend.cpp', covers=['end'], defines={'VCAP': 6}, cfg=dict(fp='real', query_timeout_ms=60000), diff_samples=0, ir_srcs=ALL_IR, native_srcs=ALL_IR, native_flags=['-llemon']),
    dict(name='H06E', src='C03_global.cpp', covers=['placeGlobal ended', 'end'], defines={'VCAP': 24, 'MAXSTEPS': 1}, cfg=dict(fp='havoc', time_budget=40), split=4, ir_srcs=ALL_IR, native_srcs=ALL_IR, native_flags=['-llemon'],
         thorough=dict(defines={'MAXSTEPS': 2}, cfg=dict(time_budget=600))),
  ])

P['C07'] = dict(
  design_ref='DESIGN.md section 3 C07',
  level_text='Every harness of every property runs with clang UBSan traps (signed overflow, division by zero, shifts, array bounds, float-to-int range, invalid bool/enum, missing return, unreachable), container contracts (index, empty access, iterator range) and the repository assert()s as verification conditions. This check aggregates dedicated runs: magnitude kernels at the full supported range (bin subdivision of areas up to 2^23 wide into up to 1200 bins, wirelength/area accumulation at |v|<=2^22, single-row legalizer cost arithmetic with widths and displacements up to 2^20, the transportation kernels of the rough legalizer - capacity normalisation and successive shortest paths - with symbolic costs in the documented fixed-point range) and the end-to-end entry points (legalize, placeDetailed, placeGlobal) in assert-enabled AND -DNDEBUG builds. Every explored path also terminated within the step budget.',
  text=dict(bounds=dict(quick='kernels: symbolic full-range operands; end to end: the tiny circuits of C01/C10/C03 in both assert modes', thorough='same with the thorough bounds of those harnesses'),
            outside='termination beyond the explored paths (no ranking functions are proved); float scaling kernels of the rough legalizer (1e8/width); larger circuits'),
  assumptions=STD_ASSUME + [BOOST_ASSUME, EIGEN_ASSUME, LEMON_ASSUME],
  harnesses=[
    dict(name='H07S', src='C07_kernels.cpp', covers=['end'], defines={'VCAP': 1202, 'H07S': None}, cfg=dict(fp='havoc', max_steps=20000000), ir_srcs=ALL_IR, native_srcs=ALL_IR, native_flags=['-llemon']),
    dict(name='H07W', src='C07_kernels.cpp', covers=['end'], defines={'VCAP': 6, 'H07W': None}, cfg=dict(fp='havoc'), ir_srcs=ALL_IR, native_srcs=ALL_IR, native_flags=['-llemon']),
    dict(name='H07E', src='C19_invalid.cpp', covers=['end'], defines={'VCAP': 6, 'H19E': None}, cfg=dict(fp='exact'), ir_srcs=ALL_IR, native_srcs=ALL_IR, native_flags=['-llemon']),
    dict(name='H07U', src='C14_transport1d.cpp', covers=['precondition holds', 'end'], defines={'VCAP': 12, 'NS': 2, 'NK': 2, 'QMAX': 2, 'FAMILY_A': None}, cfg=dict(fp='exact')),
    dict(name='H07T', src='C13_transport.cpp', covers=['precondition holds', 'end'], defines={'VCAP': 6, 'NS': 2, 'NK': 2, 'QMAX': 2, 'FAMILY_A': None}, cfg=dict(fp='exact')),
    dict(name='H07R', src='C11_idempotent.cpp', covers=['end'], defines={'VCAP': 8, 'H11B': None, 'NC': 2}, cfg=dict(fp='havoc'), split=2, ir_srcs=ALL_IR, native_srcs=ALL_IR, native_flags=['-llemon']),
    dict(name='H07D', src='C10_busy.cpp', covers=['placement call ended', 'end'], defines={'VCAP': 8, 'NDEBUG': None}, cfg=dict(fp='havoc'), ir_srcs=ALL_IR, native_srcs=ALL_IR, native_flags=['-llemon']),
    dict(name='H07G', src='C03_global.cpp', covers=['placeGlobal ended', 'end'], defines={'VCAP': 24, 'MAXSTEPS': 1, 'NDEBUG': None}, cfg=dict(fp='havoc', time_budget=40), split=4, ir_srcs=ALL_IR, native_srcs=ALL_IR, native_flags=['-llemon']),
    dict(name='H07P', src='C03_global.cpp', covers=['placeGlobal ended'], defines={'VCAP': 24, 'MAXSTEPS': 1, 'PSETS': 3}, cfg=dict(fp='havoc', time_budget=40), split=3, ir_srcs=ALL_IR, native_srcs=ALL_IR, native_flags=['-llemon']),
    dict(name='H07L', src='C01_legalize.cpp', covers=['legalize ended', 'end'], defines=dict(C01_BASE, NC=1, YCHOICE=None, POLCHOICES=2, NDEBUG=None), cfg=dict(fp='havoc'), ir_srcs=ALL_IR, native_srcs=ALL_IR, native_flags=['-llemon']),
  ])

P['C18'] = dict(
  design_ref='DESIGN.md section 3 C18',
  level_text='(F) Frame: expandCellsToDensity and expandCellsByFactor executed with every field of the circuit except the widths of movable cells write-protected and all float values unconstrained: no other location is written on any path, no error is raised; public getters compared afterwards. (D, E) Numeric claims under the floating-point error model (every rounding an independent error bounded by half an ulp, integer-to-float conversions encoded exactly, truncations as integer floors), symbolic density target / cap over concrete mixed-height cells: no movable cell gets narrower, the movable area afterwards does not exceed target x available area beyond 1e-6 relative (ByFactor: + 3 units for its integer truncations), and for expandCellsToDensity it is within one cell height of it when the per-cell cap is not hit; (E) a single cell of symbolic width up to 2^26 is not narrowed by expandCellsByFactor. (C) computeCellExpansion: 1 for fixed or uncongested cells, otherwise the largest factor among the congested regions the cell intersects, for 2 regions of symbolic geometry.',
  text=dict(bounds=dict(quick='F: 3 cells (2 movable, 1 fixed at a symbolic position), 4 rows, targets/margins/caps symbolic. D: 3 movable cells of heights 10/20/30 in 3 concrete size sets + 1 fixed, rows 100x40, margin 0, target symbolic in [1.001 x density, 0.95], cap 12 or 100. E: 2 size sets, factors {1,1.5,2}x{1,2.5}x1.25, cap symbolic in [1.001 x density, 0.95]; one cell of symbolic width 1..2^26 with factor 1 or 1.5', thorough='same'),
            outside='computeCellExpansion with symbolic congestion values (H18C uses 3 concrete values per region and 2 regions with symbolic geometry); symbolic cell sizes together with symbolic factors (products of two symbolic quantities); side margins other than 0 in the numeric harnesses; targets within 0.1 % of the current density'),
  assumptions=STD_ASSUME + [BOOST_ASSUME],
  harnesses=[
    dict(name='H18D', src='C18_expand.cpp', covers=['end'], defines={'VCAP': 8, 'H18D': None}, cfg=dict(fp='real', query_timeout_ms=60000, time_budget=120, loop_cap=8), diff_samples=0, ir_srcs=ALL_IR, native_srcs=ALL_IR, native_flags=['-llemon']),
    dict(name='H18E', src='C18_expand.cpp', covers=['end'], defines={'VCAP': 8, 'H18E': None}, cfg=dict(fp='real', fp_rel=True, query_timeout_ms=60000, time_budget=120, loop_cap=8), diff_samples=0, ir_srcs=ALL_IR, native_srcs=ALL_IR, native_flags=['-llemon']),
    dict(name='H18C', src='C18_expand.cpp', covers=['end'], defines={'VCAP': 8, 'H18C': None, 'CONGCHOICES': 3}, cfg=dict(fp='real', query_timeout_ms=60000, time_budget=120), diff_samples=0, ir_srcs=ALL_IR, native_srcs=ALL_IR, native_flags=['-llemon']),
    dict(name='H18F', src='C18_expand.cpp', covers=['end'], defines={'VCAP': 8, 'H18F': None}, cfg=dict(fp='havoc', time_budget=60, loop_cap=8), split=2, ir_srcs=ALL_IR, native_srcs=ALL_IR, native_flags=['-llemon']),
  ])
