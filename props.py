# Property table: harnesses, bounds per tier, assumptions.  Read by ./check.
STD_ASSUME = [
  'clang-14 lowering of the repository sources to LLVM IR and its UBSan instrumentation define the semantics that is executed',
  'stub models of std containers/algorithms (stubs/include/vstl_base.h): fixed capacity VCAP, insertion-sort std::sort, sorted-array priority_queue; validated per run by native differential replay',
  'allocation failure out of scope (containers are inline)',
  'z3 4.x/5.x decides every VC; sampled discharged VCs re-decided by cvc5',
]
P = {}
P['C12'] = dict(
  level_text='For every segment, every insertion sequence of up to N cells (widths enumerated, targets and segment bounds symbolic up to 2^22) the solver shows on the real RowLegalizer code: query cost == performed cost, positions ordered/non-overlapping/inside, optimal against an arbitrary symbolic competitor placement, reported costs sum to the placement cost, no UB/assert/contract violation. Universally quantified over coordinates, which tests cannot enumerate.',
  design_ref='DESIGN.md section 3 C12',
  text=dict(bounds=dict(quick='N<=3 cells, widths 1..3 enumerated, segment and targets symbolic |v|<=2^22 (targets 2^23), VCAP=8',
                        thorough='N<=4 cells, widths 1..3 enumerated (N<=3: symbolic 1..3 as well), segment and targets symbolic |v|<=2^22'),
            outside='more than 4 cells; widths above 3; coordinates beyond 2^22'),
  assumptions=STD_ASSUME + ['cells are inserted only while remainingSpace() >= width (the documented precondition, assumed before each push)'],
  harnesses=[
    dict(name='H12', src='C12_rowleg.cpp', covers=['all pushed'], defines={'VCAP': 10, 'NMAX': 3, 'WMAX': 3}, cfg=dict(fp='exact'),
         thorough=dict(defines={'NMAX': 4})),
  ])
