# irsx built-ins: harness API, LLVM intrinsics, C++ runtime (exceptions), libm, environment contracts
import z3, math, re
from .ir import Ptr, NULL, UNDEF, sgn, T
from .values import SV, SF, Bundle, IV, TRUE, FALSE, zt, zb, rng, f32, tainted, szof, compact

I1 = T('int', bits=1); I8 = T('int', bits=8); I32 = T('int', bits=32); I64 = T('int', bits=64)

def install(s):
    from .engine import EngineError, PathEnd, NeedFork, NeedChoice, Obj
    B = s.builtins; P = []
    s.builtin_prefixes = P

    def conc(e, st, v, what):
        if isinstance(v, int): return v
        if isinstance(v, SV) and v.lo == v.hi: return v.lo
        raise EngineError('symbolic ' + what)

    # ------------------------------------------------------------ harness API
    def nondet_int(e, st, a, ins, kind='i'):
        lo = conc(e, st, a[0], 'nondet bound'); hi = conc(e, st, a[1], 'nondet bound')
        if lo > hi: raise EngineError('nondet with empty range')
        rp = e.cfg.get('replay_draws')
        if rp is not None:
            v = int(rp[len(st.draws)]); st.draws.append((kind, None, v, v))
            if not lo <= v <= hi: raise PathEnd('assume')
            return v
        if lo == hi:
            st.draws.append((kind, None, lo, hi)); return lo
        v = e.newsym(st, 'nd%d' % len(st.draws), lo, hi)
        st.draws.append((kind, v.t, lo, hi))
        return v
    B['@__verif_nondet_int'] = nondet_int
    B['@__verif_nondet_i64'] = lambda e, st, a, ins: nondet_int(e, st, a, ins, 'l')
    def nondet_float(e, st, a, ins, bits=32):
        lo, hi = a[0], a[1]
        if isinstance(lo, SF) or isinstance(hi, SF): raise EngineError('symbolic nondet bound')
        rp = e.cfg.get('replay_draws')
        if rp is not None:
            v = float(rp[len(st.draws)]); v = f32(v) if bits == 32 else v
            st.draws.append(('f' if bits == 32 else 'd', None, v, v)); return v
        v = e.fp_fresh(st, bits, 'nf%d' % len(st.draws), lo, hi)
        st.draws.append(('f' if bits == 32 else 'd', v.t, lo, hi))
        return v
    B['@__verif_nondet_float'] = nondet_float
    # linear-solver model: its result is a FUNCTION of everything it was given.  In 'uf' float mode the inputs are folded into an
    # uninterpreted digest and the i-th result is an uninterpreted function of (digest, i); in the other modes the digest is 0 and
    # the result an arbitrary finite float (as before).
    def uf_mix(e, st, a, ins):
        if e.cfg['fp'] != 'uf': return 0.0
        return e.fp_ufv('mix', 64, [e.fp_lift(a[0], 64), e.fp_lift(a[1], 64)], False)
    B['@__verif_uf_mix'] = uf_mix
    def cg_result(e, st, a, ins):
        if e.cfg['fp'] != 'uf': return nondet_float(e, st, [-3.0e38, 3.0e38], ins, 32)
        h = e.fp_lift(a[0], 64); i = a[1]
        f = e.fp_ufv('cgres%s' % (i if isinstance(i, int) else 'x'), 32, [h], False)
        return f
    B['@__verif_cg_result'] = cg_result
    B['@__verif_nondet_double'] = lambda e, st, a, ins: nondet_float(e, st, a, ins, 64)
    def choice(e, st, a, ins):
        n = conc(e, st, a[0], 'choice arity')
        if n <= 1: return 0
        if st.nchoice >= len(e.choices): raise NeedChoice(n)
        v = e.choices[st.nchoice]; st.nchoice += 1
        if not (0 <= v < n): raise EngineError('choice out of range')
        return v
    B['@__verif_choice'] = choice
    def assume(e, st, a, ins):
        c = a[0]
        if isinstance(c, int):
            if not c: raise PathEnd('assume')
            return
        cond = zb(c)
        ms = e.model_says(st, cond)
        if ms is True:
            e.add_pc(st, cond); return
        r, m = e.query(st, cond)
        if r == 'unsat': raise PathEnd('assume')
        e.add_pc(st, cond)
        if m is not None: st.model = m
    B['@__verif_assume'] = assume
    def vassert(e, st, a, ins):
        c = a[0]; msg = e.cstr(st, a[1])
        if isinstance(c, int):
            if c: e.vc_count('assert', 'trivial'); return
            e.check_vc(st, True, 'assert', msg); return
        if c.taint is True: e.check_vc(st, True, 'uninit', 'asserted value depends on uninitialised memory: ' + msg)
        cond = zb(c)
        e.check_vc(st, z3.Not(cond), 'assert', msg, cond)
    B['@__verif_assert'] = vassert
    def vassert_env(e, st, a, ins):
        # a claim about what the real code handed to an environment model (stub): a fact of the executed IR that the native build
        # (which links the real library) cannot observe - confirmed in the encoding, kind 'env-contract'
        c = a[0]; msg = e.cstr(st, a[1])
        if isinstance(c, int):
            if c: e.vc_count('env-contract', 'trivial'); return
            e.check_vc(st, True, 'env-contract', msg); return
        cond = zb(c)
        e.check_vc(st, z3.Not(cond), 'env-contract', msg, cond)
    B['@__verif_assert_env'] = vassert_env
    def cover(e, st, a, ins):
        lab = e.cstr(st, a[0]); e.covers[lab] = e.covers.get(lab, 0) + 1
    B['@__verif_cover'] = cover
    def note(e, st, a, ins): st.notes.append(e.cstr(st, a[0]))
    B['@__verif_note'] = note
    def havoc_range(e, st, a, ins):
        st.havoc_range = (conc(e, st, a[0], 'range'), conc(e, st, a[1], 'range'))
    B['@__verif_havoc_int_range'] = havoc_range
    def observe(e, st, a, ins):
        v = a[0]
        if isinstance(v, SV) and v.taint is True: e.check_vc(st, True, 'uninit', 'observed value depends on uninitialised memory')
        st.observes.append(v)
    B['@__verif_observe'] = observe
    def env_input(e, st, a, ins):
        # a value handed to an environment model (e.g. the linear solver): the model's result is a function of it, so it must
        # not depend on uninitialised memory or on the clock
        v = a[0]
        t = getattr(v, 'taint', None)
        if t is True: e.check_vc(st, True, 'uninit', 'value passed to the environment (linear solver) depends on uninitialised memory')
        elif t == 'clock': e.check_vc(st, True, 'uninit', 'value passed to the environment (linear solver) depends on the clock')
    B['@__verif_env_input_f'] = env_input
    B['@__verif_env_input'] = env_input
    B['@__verif_observe_f'] = observe
    def protect(e, st, a, ins, on=True):
        p = a[0]; n = conc(e, st, a[1], 'protect size')
        if not isinstance(p, Ptr) or not isinstance(p.off, int): raise EngineError('protect of symbolic pointer')
        o = e.getobj(st, p.obj, True)
        ro = list(o.ro or [])
        if on: ro.append((p.off, p.off + n))
        else: ro = [r for r in ro if r != (p.off, p.off + n)]
        o.ro = ro or None
    B['@__verif_protect'] = protect
    B['@__verif_unprotect'] = lambda e, st, a, ins: protect(e, st, a, ins, False)
    def vfail(e, st, a, ins): raise e.fail(st, 'contract', e.cstr(st, a[0]))
    B['@__verif_fail'] = vfail
    def vassert_fail(e, st, a, ins): raise e.fail(st, 'repo-assert', 'assert(' + e.cstr(st, a[0]) + ') failed in ' + st.frames[-1].fn.name)
    B['@__verif_assert_fail'] = vassert_fail
    def vbound(e, st, a, ins): e.bound_hit(st, e.cstr(st, a[0]))
    B['@__verif_bound_hit'] = vbound
    def clock_now(e, st, a, ins):
        prev = st.clock
        v = e.newsym(st, 'clock', 0, 1 << 60)
        if prev is not None: e.add_pc(st, v.t >= zt(prev))
        st.clock = v
        v.taint = 'clock'
        return v
    B['@__verif_clock_now'] = clock_now
    def rng_float(e, st, a, ins):
        seed, idx, lo, hi = a
        if isinstance(lo, SF) or isinstance(hi, SF): raise EngineError('symbolic rng range')
        key = ('rng', seed if isinstance(seed, int) else str(seed.t), idx if isinstance(idx, int) else str(idx.t), lo, hi)
        cache = st.__dict__.setdefault('rngcache', {})
        if key in cache: return cache[key]
        if lo == hi: return lo
        v = e.fp_fresh(st, 32, 'rng', lo, hi)
        cache[key] = v
        return v
    B['@__verif_rng_float'] = rng_float
    def task_begin(e, st, a, ins):
        k = conc(e, st, a[0], 'task id')
        if st.tasks is None: st.tasks = {}
        st.tasks[k] = (set(), set()); st.tasks['cur'] = k
        st.tasks['mark'] = e.mod.first_dyn_oid + st.next_obj     # objects allocated from now on are local to the task
    def task_end(e, st, a, ins):
        k = st.tasks['cur']; st.tasks['cur'] = None
        # the two asynchronous solves of one lower-bound step are tasks 2m and 2m+1: their footprints must not interfere
        if k % 2 == 1 and (k - 1) in st.tasks:
            r1, w1 = st.tasks[k - 1]; r2, w2 = st.tasks[k]
            def mine(oid):
                # bookkeeping globals of the stub environment (e.g. the stopping criteria last handed to the solver model) are not
                # part of the code under test
                return (e.mod.oid_name.get(oid) or '').startswith('@__verif')
            def overlap(A, B):
                for (o, off, nb) in A:
                    if mine(o): continue
                    for (o2, off2, nb2) in B:
                        if o == o2 and off < off2 + nb2 and off2 < off + nb: return (o, off)
                return None
            ov = overlap(w1, w2) or overlap(w1, r2) or overlap(w2, r1)
            e.stats['task_pairs_checked'] = e.stats.get('task_pairs_checked', 0) + 1
            if ov is not None:
                o = e.getobj(st, ov[0])
                e.check_vc(st, True, 'race', 'the two asynchronous solves of a step access %s+%d and at least one of them writes it' % (o.name, ov[1]))
            else: e.vc_count('race', 'proved')
            del st.tasks[k - 1]; del st.tasks[k]
    B['@__verif_task_begin'] = task_begin; B['@__verif_task_end'] = task_end

    # ------------------------------------------------------------ traps reached by straight calls
    def ubsantrap(e, st, a, ins):
        from .ir import UBSAN_KINDS
        raise e.fail(st, 'ub', 'undefined behaviour: ' + UBSAN_KINDS.get(a[0] & 255, str(a[0])) + ' in ' + st.frames[-1].fn.name)
    B['@llvm.ubsantrap'] = ubsantrap
    B['@llvm.trap'] = lambda e, st, a, ins: (_ for _ in ()).throw(e.fail(st, 'ub', 'llvm.trap in ' + st.frames[-1].fn.name))
    B['@abort'] = lambda e, st, a, ins: (_ for _ in ()).throw(e.fail(st, 'abort', 'abort() called in ' + st.frames[-1].fn.name))
    B['@_ZSt9terminatev'] = lambda e, st, a, ins: (_ for _ in ()).throw(e.fail(st, 'terminate', 'std::terminate called'))
    B['@__clang_call_terminate'] = B['@_ZSt9terminatev']
    B['@__cxa_pure_virtual'] = lambda e, st, a, ins: (_ for _ in ()).throw(e.fail(st, 'ub', 'pure virtual call'))

    # ------------------------------------------------------------ C++ exceptions
    def cxa_allocate(e, st, a, ins):
        n = conc(e, st, a[0], 'exception size')
        return e.alloc(st, n, 'exception object', 'heap')
    B['@__cxa_allocate_exception'] = cxa_allocate
    B['@__cxa_free_exception'] = lambda e, st, a, ins: None
    def cxa_throw(e, st, a, ins):
        e.throw(st, a[0], a[1])
        raise _Unwound()
    class _Unwound(Exception): pass
    # the call handler must not advance ip after a throw: wrap
    def cxa_throw2(e, st, a, ins):
        st.exc = (a[0], a[1])
        if e.cfg.get('note_throws'): st.notes = st.notes + ['throw ' + e.exc_message(st, a[0], a[1]) + ' in ' + e.where(st)[0][-40:]]
        e.unwind(st)
        raise Redirect()
    class Redirect(Exception): pass
    s.Redirect = Redirect
    B['@__cxa_throw'] = cxa_throw2
    def cxa_begin_catch(e, st, a, ins):
        st.caught.append(st.exc); st.exc = None
        return a[0]
    B['@__cxa_begin_catch'] = cxa_begin_catch
    def cxa_end_catch(e, st, a, ins):
        if st.caught: st.caught.pop()
    B['@__cxa_end_catch'] = cxa_end_catch
    def cxa_rethrow(e, st, a, ins):
        if not st.caught: raise e.fail(st, 'terminate', 'rethrow without active exception')
        st.exc = st.caught[-1]
        e.unwind(st)
        raise Redirect()
    B['@__cxa_rethrow'] = cxa_rethrow
    def typeid_for(e, st, a, ins):
        p = a[0]
        return p.obj if isinstance(p, Ptr) else 0
    B['@llvm.eh.typeid.for'] = typeid_for
    B['@__gxx_personality_v0'] = lambda e, st, a, ins: 0
    B['@__cxa_guard_acquire'] = lambda e, st, a, ins: 1
    B['@__cxa_guard_release'] = lambda e, st, a, ins: None
    B['@__cxa_atexit'] = lambda e, st, a, ins: 0

    # ------------------------------------------------------------ intrinsics
    def with_overflow(e, st, a, ins, name):
        m = re.match(r'@llvm\.(s|u)(add|sub|mul)\.with\.overflow\.i(\d+)', name)
        sg, o, w = m.group(1), m.group(2), int(m.group(3)); x, y = a
        if x is UNDEF or y is UNDEF: raise EngineError('overflow intrinsic on undef')
        if sg == 'u': x = e.tounsigned(x, w); y = e.tounsigned(y, w)
        lo, hi = rng(w) if sg == 's' else (0, (1 << w) - 1)
        if isinstance(x, int) and isinstance(y, int):
            r = {'add': x + y, 'sub': x - y, 'mul': x * y}[o]
            return [sgn(r, w), int(not (lo <= r <= hi))]
        xl, xh = (x, x) if isinstance(x, int) else (x.lo, x.hi)
        yl, yh = (y, y) if isinstance(y, int) else (y.lo, y.hi)
        tn = tainted(x, y)
        if o == 'add': t = zt(x) + zt(y); rl, rh = xl + yl, xh + yh
        elif o == 'sub': t = zt(x) - zt(y); rl, rh = xl - yh, xh - yl
        else:
            t = zt(x) * zt(y); ps = (xl * yl, xl * yh, xh * yl, xh * yh); rl, rh = min(ps), max(ps)
        szr = szof(x) + szof(y) + 1
        if szr > 12: t = z3.simplify(t, som=True); szr = 4
        if rl >= lo and rh <= hi:
            e.stats['interval_decided'] += 1
            r = SV(t, rl, rh, taint=tn, sz=szr)
            return [r if sg == 's' else e.fromunsigned(r, w), 0]
        ov = SV(z3.Or(t < lo, t > hi), 0, 1, taint=tn)
        # the value is only meaningful when no overflow happened (every user is guarded by the overflow flag): clamp the interval
        r = SV(t, max(rl, lo), min(rh, hi), taint=tn, sz=szr)
        return [r if sg == 's' else e.fromunsigned(r, w), ov]
    def mk_wo(name): return lambda e, st, a, ins: with_overflow(e, st, a, ins, name)
    def minmax(e, st, a, ins, name):
        m = re.match(r'@llvm\.(smax|smin|umax|umin)\.i(\d+)', name); k, w = m.group(1), int(m.group(2)); x, y = a
        c = e.icmp(st, {'smax': 'sgt', 'smin': 'slt', 'umax': 'ugt', 'umin': 'ult'}[k], x, y, w)
        if isinstance(c, int): return x if c else y
        return e.ite(zb(c), x, y)
    def iabs(e, st, a, ins):
        x = a[0]
        if isinstance(x, int): return abs(x)
        return SV(z3.If(x.t < 0, -x.t, x.t), 0 if x.lo <= 0 <= x.hi else min(abs(x.lo), abs(x.hi)), max(abs(x.lo), abs(x.hi)), taint=x.taint)
    def memset(e, st, a, ins):
        p, v, ln = a[0], a[1], a[2]
        ln = e.concretize(st, ln) if not isinstance(ln, int) else ln
        if ln == 0: return
        if not isinstance(p, Ptr) or not isinstance(p.off, int): raise EngineError('memset through symbolic pointer')
        o = e.getobj(st, p.obj)
        # keep existing cell structure when possible (zero-fill typed cells)
        if isinstance(v, int) and v == 0:
            ks = sorted(k for k, c in o.cells.items() if p.off <= k < p.off + ln)
            covered = 0
            if ks and all(o.cells[k][1] + k <= p.off + ln for k in ks) and sum(o.cells[k][1] for k in ks) == ln:
                for k in ks:
                    c = o.cells[k]
                    z = 0.0 if isinstance(c[0], (float, SF)) else (NULL if isinstance(c[0], Ptr) else 0)
                    e.store_raw(st, Ptr(p.obj, k), z, c[1])
                return
            # unknown layout: write 8-byte zero words where aligned, bytes otherwise
            k = 0
            while k < ln:
                if (p.off + k) % 4 == 0 and ln - k >= 4: e.store_raw(st, Ptr(p.obj, p.off + k), 0, 4); k += 4
                else: e.store_raw(st, Ptr(p.obj, p.off + k), 0, 1); k += 1
            return
        for k in range(ln): e.store_raw(st, Ptr(p.obj, p.off + k), v, 1)
    def memcpy(e, st, a, ins):
        d, sr, ln = a[0], a[1], a[2]
        ln = e.concretize(st, ln) if not isinstance(ln, int) else ln
        if ln == 0: return
        if not isinstance(d, Ptr) or not isinstance(sr, Ptr): raise EngineError('memcpy through non-pointer')
        so = e.concretize(st, sr.off); do = e.concretize(st, d.off)
        if sr.obj == 0 or d.obj == 0: raise e.fail(st, 'ub', 'memcpy with null pointer')
        src = e.getobj(st, sr.obj)
        if so < 0 or so + ln > src.size: raise e.fail(st, 'ub', 'memcpy reads out of bounds of ' + src.name)
        tmp = []; k = 0
        while k < ln:
            c = src.cells.get(so + k)
            if c is not None and k + c[1] <= ln: tmp.append((k, c[0], c[1])); k += c[1]; continue
            if src.bytes:
                done = False
                for boff, b in src.bytes.items():
                    if boff <= so + k < boff + len(b):
                        tmp.append((k, sgn(b[so + k - boff], 8), 1)); k += 1; done = True; break
                if done: continue
            if c is None:
                cov = [kk for kk, cc in src.cells.items() if kk < so + k < kk + cc[1]]
                if cov: raise EngineError('memcpy splitting a cell')
                k += 1; continue      # uninitialised byte (padding): destination byte becomes uninitialised too
            raise EngineError('memcpy splitting a cell')
        dst = e.getobj(st, d.obj)
        if do < 0 or do + ln > dst.size: raise e.fail(st, 'ub', 'memcpy writes out of bounds of ' + dst.name)
        e.check_ro(st, dst, do, ln, d)
        dst = e.getobj(st, d.obj, True)
        e.clear_range(dst, do, ln)
        for k, v, nb in tmp:
            dst.cells[do + k] = (v, nb)
            e.note_write(st, d.obj, do + k, nb)
        if st.tasks is not None: e.note_read(st, sr.obj, so, ln)
    B['@llvm.eh.typeid.for'] = typeid_for
    P.append(('@llvm.lifetime', lambda e, st, a, ins: None))
    P.append(('@llvm.dbg', lambda e, st, a, ins: None))
    P.append(('@llvm.assume', lambda e, st, a, ins: None))
    P.append(('@llvm.experimental.noalias', lambda e, st, a, ins: None))
    P.append(('@llvm.invariant', lambda e, st, a, ins: None))
    P.append(('@llvm.stacksave', lambda e, st, a, ins: NULL))
    P.append(('@llvm.stackrestore', lambda e, st, a, ins: None))
    P.append(('@llvm.expect', lambda e, st, a, ins: a[0]))
    P.append(('@llvm.memset', memset))
    P.append(('@llvm.memcpy', memcpy)); P.append(('@llvm.memmove', memcpy))
    P.append(('@llvm.abs', iabs))
    for sg in 'su':
        for o in ('add', 'sub', 'mul'):
            for w in (8, 16, 32, 64):
                nm = '@llvm.%s%s.with.overflow.i%d' % (sg, o, w); B[nm] = mk_wo(nm)
    for k in ('smax', 'smin', 'umax', 'umin'):
        for w in (8, 16, 32, 64):
            nm = '@llvm.%s.i%d' % (k, w); B[nm] = (lambda nm: lambda e, st, a, ins: minmax(e, st, a, ins, nm))(nm)

    # ------------------------------------------------------------ floating point library
    def fbits(name): return 32 if (name.endswith('f') or name.endswith('.f32')) else 64
    def libm1(fn, name):
        bits = fbits(name)
        def f(e, st, a, ins):
            x = a[0]
            if isinstance(x, SF):
                if e.cfg['fp'] == 'havoc': return SF(None, bits, taint=x.taint)
                if e.cfg['fp'] == 'uf': return e.fp_ufv('libm_' + name.replace('.', '_'), bits, [x], x.taint)
                raise EngineError('libm %s on symbolic argument (contract not modelled)' % name)
            try: r = fn(x)
            except (ValueError, OverflowError): r = math.nan
            return f32(r) if bits == 32 else r
        return f
    def safe_log(x): return math.log(x) if x > 0 else (-math.inf if x == 0 else math.nan)
    def safe_sqrt(x): return math.sqrt(x) if x >= 0 else math.nan
    def safe_exp(x):
        try: return math.exp(x)
        except OverflowError: return math.inf
    for nm, fn in (('exp', safe_exp), ('log', safe_log), ('sqrt', safe_sqrt)):
        B['@' + nm] = libm1(fn, nm); B['@' + nm + 'f'] = libm1(fn, nm + 'f')
        B['@llvm.%s.f32' % nm] = libm1(fn, nm + 'f'); B['@llvm.%s.f64' % nm] = libm1(fn, nm)
    def powf_(bits):
        def f(e, st, a, ins):
            x, y = a
            if isinstance(x, SF) or isinstance(y, SF):
                if e.cfg['fp'] == 'havoc': return SF(None, bits)
                if e.cfg['fp'] == 'uf': return e.fp_ufv('libm_pow', bits, [e.fp_lift(x, bits), e.fp_lift(y, bits)], False)
                raise EngineError('pow on symbolic argument')
            try: r = math.pow(x, y)
            except (ValueError, OverflowError): r = math.nan
            return f32(r) if bits == 32 else r
        return f
    B['@pow'] = powf_(64); B['@powf'] = powf_(32); B['@llvm.pow.f32'] = powf_(32); B['@llvm.pow.f64'] = powf_(64)
    def rint(how, bits): return lambda e, st, a, ins: e.fp_round_int(st, a[0], bits, how)
    for how in ('round', 'floor', 'ceil'):
        B['@' + how] = rint(how, 64); B['@' + how + 'f'] = rint(how, 32)
        B['@llvm.%s.f32' % how] = rint(how, 32); B['@llvm.%s.f64' % how] = rint(how, 64)
    B['@llvm.fabs.f32'] = lambda e, st, a, ins: e.fabs(st, a[0], 32)
    B['@llvm.fabs.f64'] = lambda e, st, a, ins: e.fabs(st, a[0], 64)
    def fmuladd(bits):
        def f(e, st, a, ins): return e.fbin(st, 'fadd', e.fbin(st, 'fmul', a[0], a[1], bits), a[2], bits)
        return f
    B['@llvm.fmuladd.f32'] = fmuladd(32); B['@llvm.fmuladd.f64'] = fmuladd(64)
    def fminmax(bits, k):
        def f(e, st, a, ins):
            c = e.fcmp(st, 'olt' if k == 'min' else 'ogt', a[0], a[1], bits)
            if isinstance(c, int): return a[0] if c else a[1]
            return e.ite(zb(c), a[0], a[1])
        return f
    for k in ('min', 'max'):
        B['@llvm.%snum.f32' % k] = fminmax(32, k); B['@llvm.%snum.f64' % k] = fminmax(64, k)
        B['@f%sf' % k] = fminmax(32, k); B['@f%s' % k] = fminmax(64, k)
    B['@llvm.huge_valf'] = lambda e, st, a, ins: math.inf
