# irsx front end: LLVM-14 textual IR (typed pointers) -> pre-decoded module.
import re, struct

class IRError(Exception):
    pass

# ---------------------------------------------------------------- types
class T:
    __slots__ = ('k', 'bits', 'n', 'el', 'els', 'packed', 'name', 'to', 'ret', '_sa', '_offs')
    def __init__(s, k, **kw):
        s.k = k; s.bits = None; s.n = None; s.el = None; s.els = None; s.packed = False
        s.name = None; s.to = None; s.ret = None; s._sa = None; s._offs = None
        for a, b in kw.items(): setattr(s, a, b)
    def __repr__(s):
        if s.k == 'int': return 'i%d' % s.bits
        if s.k == 'ptr': return repr(s.to) + '*'
        if s.k == 'array': return '[%d x %r]' % (s.n, s.el)
        if s.k == 'struct': return '{' + ', '.join(map(repr, s.els)) + '}'
        if s.k == 'named': return '%' + s.name
        return s.k

_ident = r'(?:"(?:[^"\\]|\\.)*"|[\w.$-]+)'
_re_named = re.compile(r'%(' + _ident + ')')
_re_arr = re.compile(r'\[\s*(\d+)\s+x\s+')
_re_prim = re.compile(r'(i\d+|float|double|void|label|x86_fp80|metadata|half|token)')

class TypeCtx:
    def __init__(s):
        s.named = {}; s._cache = {}
    def parse(s, txt):
        t, rest = s.parse_prefix(txt.strip())
        if rest.strip() != '': raise IRError('trailing type text: %r in %r' % (rest, txt))
        return t
    def parse_prefix(s, x):
        r = s._cache.get(x)
        if r is None:
            r = s._p0(x); s._cache[x] = r
        return r
    def _p0(s, x):
        x = x.lstrip()
        if x.startswith('%'):
            m = _re_named.match(x)
            nm = m.group(1)
            if nm.startswith('"'): nm = nm[1:-1]
            base = T('named', name=nm); x = x[m.end():]
        elif x.startswith('['):
            m = _re_arr.match(x)
            el, r = s.parse_prefix(x[m.end():]); r = r.lstrip()
            if r[0] != ']': raise IRError('array type: ' + x)
            base = T('array', n=int(m.group(1)), el=el); x = r[1:]
        elif x.startswith('{') or x.startswith('<{'):
            packed = x.startswith('<{'); x = x[2 if packed else 1:]
            els = []; x = x.lstrip()
            if x.startswith('}'): x = x[1:]
            else:
                while True:
                    e, x = s.parse_prefix(x); els.append(e); x = x.lstrip()
                    if x[0] == ',': x = x[1:]; continue
                    if x[0] != '}': raise IRError('struct type: ' + x)
                    x = x[1:]; break
            if packed:
                if x[0] != '>': raise IRError('packed struct')
                x = x[1:]
            base = T('struct', els=els, packed=packed)
        elif x.startswith('<'):
            raise IRError('vector types unsupported: ' + x[:40])
        else:
            m = _re_prim.match(x)
            if not m: raise IRError('type? ' + x[:60])
            w = m.group(1)
            base = T('int', bits=int(w[1:])) if (w[0] == 'i' and w[1:].isdigit()) else T(w)
            x = x[m.end():]
        while True:
            x2 = x.lstrip()
            if x2.startswith('*'): base = T('ptr', to=base); x = x2[1:]
            elif x2.startswith('('):
                depth = 0
                for i, c in enumerate(x2):
                    if c == '(': depth += 1
                    elif c == ')':
                        depth -= 1
                        if depth == 0: break
                base = T('func', ret=base); x = x2[i + 1:]
            else: break
        return base, x
    def resolve(s, t):
        while t.k == 'named':
            t2 = s.named.get(t.name)
            if t2 is None: raise IRError('opaque type %' + t.name)
            t = t2
        return t
    def size_align(s, t):
        t = s.resolve(t)
        if t._sa is not None: return t._sa
        if t.k == 'int':
            b = max(1, (t.bits + 7) // 8); p = 1
            while p < b: p *= 2
            r = (p, min(p, 8))
            if t.bits == 128: r = (16, 16)
        elif t.k == 'float': r = (4, 4)
        elif t.k == 'double': r = (8, 8)
        elif t.k in ('ptr', 'func'): r = (8, 8)
        elif t.k == 'array':
            sz, al = s.size_align(t.el); r = (sz * t.n, al)
        elif t.k == 'struct':
            off = 0; mal = 1; offs = []
            for e in t.els:
                sz, al = s.size_align(e)
                if t.packed: al = 1
                off = (off + al - 1) // al * al; offs.append(off); off += sz; mal = max(mal, al)
            off = (off + mal - 1) // mal * mal
            t._offs = offs; r = (off, mal)
        else: raise IRError('size of ' + repr(t))
        t._sa = r
        return r
    def field_off(s, t, i):
        t = s.resolve(t)
        s.size_align(t)
        return t._offs[i], t.els[i]

# ---------------------------------------------------------------- helpers
def split_top(x, sep=','):
    out = []; depth = 0; cur = []; inq = False
    for c in x:
        if c == '"': inq = not inq
        if not inq:
            if c in '([{<': depth += 1
            elif c in ')]}>': depth -= 1
            elif c == sep and depth == 0:
                out.append(''.join(cur).strip()); cur = []; continue
        cur.append(c)
    tail = ''.join(cur).strip()
    if tail: out.append(tail)
    return out

_attr_re = re.compile(r'^(?:(?:noundef|nonnull|signext|zeroext|nocapture|readonly|readnone|writeonly|noalias|immarg|returned|inreg|nest|nofree|swiftself|align \d+|dereferenceable\(\d+\)|dereferenceable_or_null\(\d+\)|sret\([^()]*(?:\([^()]*\))?[^()]*\)|byval\([^()]*(?:\([^()]*\))?[^()]*\)|byref\([^()]*\)|elementtype\([^()]*\))\s+)*')
_md_re = re.compile(r',\s*![\w.]+ ![\w.]+')

def sgn(v, w):
    v &= (1 << w) - 1
    return v - (1 << w) if v >> (w - 1) else v

class Ptr:
    __slots__ = ('obj', 'off')
    def __init__(s, obj, off): s.obj = obj; s.off = off
    def __repr__(s): return 'Ptr(%s,%s)' % (s.obj, s.off)
    def __eq__(s, o): return isinstance(o, Ptr) and s.obj == o.obj and (s.off is o.off or (isinstance(s.off, int) and isinstance(o.off, int) and s.off == o.off))
    def __hash__(s): return hash((s.obj, s.off if isinstance(s.off, int) else id(s.off)))
NULL = Ptr(0, 0)

class Undef:
    def __repr__(s): return 'undef'
UNDEF = Undef()

class Ins:
    __slots__ = ('op', 'dst', 'a', 'ty', 'x', 'txt', 'trap')
    def __init__(s, op, dst, a, ty=None, x=None, txt=''):
        s.op = op; s.dst = dst; s.a = a; s.ty = ty; s.x = x; s.txt = txt; s.trap = None
    def __repr__(s): return s.txt

class Block:
    __slots__ = ('name', 'ins', 'nphi', 'trap', 'term')
    def __init__(s, name): s.name = name; s.ins = []; s.nphi = 0; s.trap = None; s.term = None

class Func:
    def __init__(s, name): s.name = name; s.params = []; s.blocks = {}; s.order = []; s.rett = None; s.ipdom = None; s.mergeable = None; s.src = None

class GlobalVar:
    __slots__ = ('name', 'ty', 'init', 'const', 'oid', 'size', 'alias')
    def __init__(s, name): s.name = name; s.ty = None; s.init = None; s.const = False; s.oid = None; s.size = 0; s.alias = None

TRAP_FUNCS = {'@llvm.ubsantrap': 'ub', '@llvm.trap': 'ub', '@__verif_fail': 'contract', '@__verif_assert_fail': 'repo-assert',
              '@__verif_bound_hit': 'bound', '@__assert_fail': 'repo-assert', '@abort': 'abort', '@_ZSt9terminatev': 'terminate', '@__clang_call_terminate': 'terminate'}

UBSAN_KINDS = {0: 'add-overflow', 1: 'builtin-unreachable', 2: 'cfi', 3: 'divrem-overflow', 4: 'dynamic-type-cache-miss', 5: 'float-cast-overflow',
               6: 'function-type-mismatch', 7: 'implicit-conversion', 8: 'invalid-builtin', 9: 'invalid-objc-cast', 10: 'load-invalid-value',
               11: 'missing-return', 12: 'mul-overflow', 13: 'negate-overflow', 14: 'nullability-arg', 15: 'nullability-return', 16: 'nonnull-arg',
               17: 'nonnull-return', 18: 'out-of-bounds', 19: 'pointer-overflow', 20: 'shift-out-of-bounds', 21: 'sub-overflow', 22: 'type-mismatch',
               23: 'alignment', 24: 'vla-bound'}

# ---------------------------------------------------------------- module
class Module:
    def __init__(s, path):
        s.tc = TypeCtx(); s.funcs = {}; s.globals = {}; s.decls = set(); s.path = path
        s.next_oid = 1; s.oid_name = {}; s.func_oid = {}; s.oid_func = {}
        s._opcache = {}
        text = open(path).read()
        lines = text.split('\n')
        raw_funcs = []; raw_globals = []
        i = 0; n = len(lines)
        re_type = re.compile(r'(%' + _ident + r') = type (.*)$')
        re_glob = re.compile(r'(@' + _ident + r') = (.*)$')
        re_fname = re.compile(r'(@' + _ident + r')\s*\(')
        while i < n:
            ln = lines[i]
            if ln.startswith('%'):
                m = re_type.match(ln)
                if m:
                    nm = m.group(1)[1:]
                    if nm.startswith('"'): nm = nm[1:-1]
                    if m.group(2).strip() != 'opaque': s.tc.named[nm] = s.tc.parse(m.group(2))
                i += 1; continue
            if ln.startswith('@'):
                m = re_glob.match(ln)
                if m: raw_globals.append((m.group(1), m.group(2)))
                i += 1; continue
            if ln.startswith('declare'):
                m = re_fname.search(ln)
                if m: s.decls.add(m.group(1))
                i += 1; continue
            if ln.startswith('define'):
                j = i
                while lines[j] != '}': j += 1
                raw_funcs.append(lines[i:j]); i = j + 1; continue
            i += 1
        # object ids: functions and globals get fixed ids, so that addresses are constants
        for ls in raw_funcs:
            m = re_fname.search(ls[0]); name = m.group(1)
            oid = s.next_oid; s.next_oid += 1
            s.func_oid[name] = oid; s.oid_func[oid] = name; s.oid_name[oid] = name
        for name in sorted(s.decls):
            oid = s.next_oid; s.next_oid += 1
            s.func_oid[name] = oid; s.oid_func[oid] = name; s.oid_name[oid] = name
        for name, rest in raw_globals:
            g = GlobalVar(name); s.globals[name] = g
            g.oid = s.next_oid; s.next_oid += 1; s.oid_name[g.oid] = name
        for name, rest in raw_globals: s._global(name, rest)
        for ls in raw_funcs: s._func(ls)
        s.first_dyn_oid = s.next_oid

    # ---- globals
    def _global(s, name, rest):
        g = s.globals[name]
        m = re.search(r'\b(alias|ifunc)\b', rest)
        if m and not re.search(r'\b(global|constant)\b', rest[:m.start()]):
            mm = re.search(r'(@' + _ident + r')\s*$', rest)
            g.alias = mm.group(1); return
        m = re.search(r'\b(global|constant)\b\s+', rest)
        if not m: raise IRError('global? ' + name + ' = ' + rest)
        g.const = m.group(1) == 'constant'
        body = rest[m.end():]
        ty, after = s.tc.parse_prefix(body)
        g.ty = ty
        after = after.strip()
        # strip trailing attributes (", align N", ", comdat", ", section ...")
        parts = split_top(after)
        init = parts[0] if parts and not re.match(r'^(align|comdat|section|!)', parts[0]) else None
        if 'external' in rest[:m.start()].split(): init = None
        g.init = init
        try: g.size = s.tc.size_align(ty)[0]
        except IRError: g.size = 0

    def resolve_alias(s, name):
        g = s.globals.get(name)
        while g is not None and g.alias is not None:
            name = g.alias; g = s.globals.get(name)
        return name

    # ---- operands
    def typed(s, txt):
        ty, rest = s.tc.parse_prefix(txt)
        rest = _attr_re.sub('', rest.strip())
        return ty, rest
    def operand(s, ty, txt):
        """decode a value text of type ty into ('r', name) | ('k', value)"""
        txt = txt.strip()
        if txt.startswith('%'): return ('r', txt)
        return ('k', s.const(ty, txt))
    def top(s, txt):
        r = s._opcache.get(txt)
        if r is None:
            ty, v = s.typed(txt); r = (ty, s.operand(ty, v)); s._opcache[txt] = r
        return r
    def const(s, ty, txt):
        txt = txt.strip()
        t = s.tc.resolve(ty) if ty.k != 'named' or ty.name in s.tc.named else ty
        if txt.startswith('@'):
            nm = re.match(r'@' + _ident, txt).group(0)
            nm = s.resolve_alias(nm)
            if nm in s.func_oid: return Ptr(s.func_oid[nm], 0)
            if nm in s.globals: return Ptr(s.globals[nm].oid, 0)
            raise IRError('unknown global ' + nm)
        if txt == 'null': return NULL
        if txt in ('undef', 'poison'):
            if t.k in ('struct', 'array'): return s.zero(t)
            return UNDEF
        if txt == 'zeroinitializer': return s.zero(t)
        if txt == 'true': return 1
        if txt == 'false': return 0
        if t.k == 'int' and re.match(r'^-?\d+$', txt): return sgn(int(txt), t.bits) if t.bits > 1 else int(txt) & 1
        if t.k in ('float', 'double'): return s.fconst(t, txt)
        if txt.startswith('getelementptr'):
            inner = txt[txt.index('(') + 1: txt.rindex(')')]
            parts = split_top(inner)
            bty = s.tc.parse(parts[0])
            pty, pv = s.typed(parts[1]); base = s.const(pty, pv)
            off = base.off; tcur = bty; first = True
            for p in parts[2:]:
                p = re.sub(r'^inrange\s+', '', p)
                ity, iv = s.typed(p); iv = s.const(ity, iv)
                if first:
                    off += iv * s.tc.size_align(tcur)[0]; first = False; continue
                tcur = s.tc.resolve(tcur)
                if tcur.k == 'struct':
                    fo, ft = s.tc.field_off(tcur, iv); off += fo; tcur = ft
                elif tcur.k == 'array':
                    off += iv * s.tc.size_align(tcur.el)[0]; tcur = tcur.el
                else: raise IRError('const gep into ' + repr(tcur))
            return Ptr(base.obj, off)
        if txt.startswith('bitcast') or txt.startswith('addrspacecast'):
            inner = txt[txt.index('(') + 1: txt.rindex(')')]
            a = inner.rsplit(' to ', 1)[0]
            ty2, v2 = s.typed(a); return s.const(ty2, v2)
        if txt.startswith('inttoptr'):
            inner = txt[txt.index('(') + 1: txt.rindex(')')]
            a = inner.rsplit(' to ', 1)[0]
            ty2, v2 = s.typed(a); v = s.const(ty2, v2)
            if v == 0: return NULL
            return Ptr(-1, v)
        if txt.startswith('ptrtoint'):
            inner = txt[txt.index('(') + 1: txt.rindex(')')]
            a = inner.rsplit(' to ', 1)[0]
            ty2, v2 = s.typed(a); v = s.const(ty2, v2)
            return v      # pointer carried as integer (only compared, masked for alignment, or converted back)
        if t.k == 'struct' and (txt.startswith('{') or txt.startswith('<{')):
            body = txt.strip()
            body = body[2:-2] if body.startswith('<{') else body[1:-1]
            out = []
            for e in split_top(body):
                ty2, v2 = s.typed(e); out.append(s.const(ty2, v2))
            return out
        if t.k == 'array' and txt.startswith('['):
            out = []
            for e in split_top(txt.strip()[1:-1]):
                ty2, v2 = s.typed(e); out.append(s.const(ty2, v2))
            return out
        if t.k == 'array' and txt.startswith('c"'):
            return ('bytes', s.cstring(txt[2:-1]))
        raise IRError('constant? %r : %r' % (txt, ty))
    @staticmethod
    def cstring(body):
        out = bytearray(); i = 0
        while i < len(body):
            c = body[i]
            if c == '\\':
                out.append(int(body[i + 1:i + 3], 16)); i += 3
            else:
                out.append(ord(c)); i += 1
        return bytes(out)
    def zero(s, t):
        t = s.tc.resolve(t)
        if t.k == 'int': return 0
        if t.k in ('ptr', 'func'): return NULL
        if t.k == 'struct': return [s.zero(e) for e in t.els]
        if t.k == 'array':
            if t.n > 4096: return ('zeros', t)
            return [s.zero(t.el) for _ in range(t.n)]
        if t.k in ('float', 'double'): return 0.0
        raise IRError('zero of ' + repr(t))
    def fconst(s, t, txt):
        if txt.startswith('0x'):
            h = txt[2:]
            if h[0] in 'KLMHR': raise IRError('long double constant')
            v = struct.unpack('>d', bytes.fromhex(h.rjust(16, '0')))[0]
        else:
            v = float(txt)
        return v

    # ---- functions
    def _func(s, ls):
        hdr = ls[0]
        m = re.search(r'(@' + _ident + r')\s*\(', hdr)
        name = m.group(1)
        f = Func(name)
        st = m.end(); depth = 1; k = st
        while depth:
            if hdr[k] == '(': depth += 1
            elif hdr[k] == ')': depth -= 1
            k += 1
        ptxt = hdr[st:k - 1]
        for idx, p in enumerate(split_top(ptxt)):
            if p == '...': continue
            mm = re.search(r'(%[\w.]+)$', p)
            ty, _ = s.tc.parse_prefix(p)
            f.params.append((mm.group(1) if mm else '%' + str(idx), ty))
        pre = hdr[:m.start()]
        toks = pre.split(); rt = None
        for nn in range(len(toks)):
            cand = ' '.join(toks[nn:])
            try:
                rt = s.tc.parse(cand); break
            except Exception: continue
        f.rett = rt
        # join multi-line instructions (invoke ... to label, switch [...])
        joined = []; insw = False
        for ln in ls[1:]:
            t = ln.strip()
            if insw:
                joined[-1] += ' ' + t
                if t == ']': insw = False
                continue
            if t.startswith('to label') and joined: joined[-1] += ' ' + t; continue
            if (t.startswith('catch ') or t.startswith('cleanup') or t.startswith('filter ')) and joined and 'landingpad' in joined[-1]:
                joined[-1] += ' ' + t; continue
            if t.startswith('switch ') and t.endswith('['): insw = True
            joined.append(ln)
        cur = None
        for ln in joined:
            t = ln.strip()
            if not t or t.startswith(';'): continue
            m2 = re.match(r'^(' + _ident + r'):', ln)
            if m2 and not ln.startswith(' '):
                nm = m2.group(1)
                if nm.startswith('"'): nm = nm[1:-1]
                cur = Block(nm); f.blocks[nm] = cur; f.order.append(nm); continue
            if cur is None:
                nm = str(len(f.params))
                cur = Block(nm); f.blocks[nm] = cur; f.order.append(nm)
            if '"' not in t:
                t = re.sub(r'\s*;.*$', '', t)
            t = _md_re.sub('', t)
            t = re.sub(r'\s+#\d+$', '', t)
            try:
                ins = s.decode(t)
            except IRError as e:
                ins = Ins('unsupported', None, (), x=str(e), txt=t)
            cur.ins.append(ins)
        for b in f.blocks.values():
            k = 0
            while k < len(b.ins) and b.ins[k].op == 'phi': k += 1
            b.nphi = k
            b.term = b.ins[-1] if b.ins else None
            # trap block: [call trap-func ; unreachable]
            if b.ins and b.ins[0].op in ('call', 'invoke') and isinstance(b.ins[0].x, str) and b.ins[0].x in TRAP_FUNCS:
                if b.ins[-1].op == 'unreachable' or b.ins[0].op == 'invoke':
                    b.trap = (TRAP_FUNCS[b.ins[0].x], b.ins[0])
        s.funcs[name] = f

    _re_lab = re.compile(r'label %(' + _ident + ')')
    def _labels(s, txt):
        out = []
        for m in s._re_lab.finditer(txt):
            nm = m.group(1)
            if nm.startswith('"'): nm = nm[1:-1]
            out.append(nm)
        return out

    def decode(s, t):
        txt = t
        dst = None
        m = re.match(r'(%' + _ident + r') = (.*)$', t)
        if m: dst, t = m.group(1), m.group(2)
        op = t.split(None, 1)[0]
        if op in ('tail', 'notail', 'musttail'):
            t = t.split(None, 1)[1]; op = t.split(None, 1)[0]
        if op == 'br':
            if t.startswith('br i1'):
                labs = s._labels(t)
                cpart = t[len('br i1'):].split(',')[0]
                return Ins('condbr', None, (s.operand(T('int', bits=1), cpart),), x=(labs[0], labs[1]), txt=txt)
            return Ins('br', None, (), x=s._labels(t)[0], txt=txt)
        if op == 'ret':
            if t.strip() == 'ret void': return Ins('ret', None, (), txt=txt)
            ty, o = s.top(t[4:]); return Ins('ret', None, (o,), ty=ty, txt=txt)
        if op == 'unreachable': return Ins('unreachable', None, (), txt=txt)
        if op in ('add', 'sub', 'mul', 'and', 'or', 'xor', 'shl', 'lshr', 'ashr', 'sdiv', 'udiv', 'srem', 'urem'):
            rest = re.sub(r'^(\w+)\s+((nsw|nuw|exact)\s+)*', '', t)
            flags = set(re.findall(r'\b(nsw|nuw|exact)\b', t[:len(t) - len(rest)]))
            ty, ops = s.typed(rest); a, b = split_top(ops)
            return Ins(op, dst, (s.operand(ty, a), s.operand(ty, b)), ty=ty, x=flags, txt=txt)
        if op in ('fadd', 'fsub', 'fmul', 'fdiv', 'frem'):
            rest = re.sub(r'^(\w+)\s+((nnan|ninf|nsz|arcp|contract|afn|reassoc|fast)\s+)*', '', t)
            ty, ops = s.typed(rest); a, b = split_top(ops)
            return Ins(op, dst, (s.operand(ty, a), s.operand(ty, b)), ty=ty, txt=txt)
        if op == 'fneg':
            rest = re.sub(r'^(\w+)\s+((nnan|ninf|nsz|arcp|contract|afn|reassoc|fast)\s+)*', '', t)
            ty, o = s.top(rest); return Ins('fneg', dst, (o,), ty=ty, txt=txt)
        if op == 'icmp' or op == 'fcmp':
            m = re.match(r'[if]cmp\s+((?:nnan|ninf|nsz|arcp|contract|afn|reassoc|fast)\s+)*(\w+) (.*)$', t); pred = m.group(2)
            ty, ops = s.typed(m.group(3)); a, b = split_top(ops)
            return Ins(op, dst, (s.operand(ty, a), s.operand(ty, b)), ty=ty, x=pred, txt=txt)
        if op in ('sext', 'zext', 'trunc', 'bitcast', 'ptrtoint', 'inttoptr', 'sitofp', 'uitofp', 'fptosi', 'fptoui', 'fpext', 'fptrunc', 'addrspacecast'):
            m = re.match(r'\w+ (.*) to (.*)$', t)
            ty, o = s.top(m.group(1)); ty2 = s.tc.parse(m.group(2))
            return Ins(op, dst, (o,), ty=ty, x=ty2, txt=txt)
        if op == 'select':
            parts = split_top(re.sub(r'^select\s+((nnan|ninf|nsz|arcp|contract|afn|reassoc|fast)\s+)*', '', t))
            c = s.top(parts[0]); a = s.top(parts[1]); b = s.top(parts[2])
            return Ins('select', dst, (c[1], a[1], b[1]), ty=a[0], txt=txt)
        if op == 'alloca':
            m = re.match(r'alloca\s+(?:inalloca\s+)?(.*)$', t)
            parts = split_top(m.group(1))
            ty = s.tc.parse(parts[0]); cnt = ('k', 1)
            for p in parts[1:]:
                if p.startswith('align') or p.startswith('addrspace'): continue
                cnt = s.top(p)[1]
            return Ins('alloca', dst, (cnt,), ty=ty, txt=txt)
        if op == 'load':
            m = re.match(r'load (?:volatile )?(.*)$', t)
            parts = split_top(m.group(1))
            ty = s.tc.parse(parts[0]); p = s.top(parts[1])
            return Ins('load', dst, (p[1],), ty=ty, txt=txt)
        if op == 'store':
            m = re.match(r'store (?:volatile )?(.*)$', t)
            parts = split_top(m.group(1))
            v = s.top(parts[0]); p = s.top(parts[1])
            return Ins('store', None, (v[1], p[1]), ty=v[0], txt=txt)
        if op == 'getelementptr':
            rest = re.sub(r'^getelementptr\s+(inbounds\s+)?', '', t)
            parts = split_top(rest)
            bty = s.tc.parse(parts[0]); p = s.top(parts[1])
            # precompute the walk: list of ('c', const_offset) | ('s', operand, stride, width)
            steps = []; tcur = bty; first = True; coff = 0
            for x in parts[2:]:
                ity, io = s.top(x)
                if first:
                    stride = s.tc.size_align(tcur)[0]; first = False
                else:
                    tr = s.tc.resolve(tcur)
                    if tr.k == 'struct':
                        if io[0] != 'k': raise IRError('gep: symbolic struct index')
                        fo, ft = s.tc.field_off(tr, io[1]); coff += fo; tcur = ft; continue
                    elif tr.k == 'array':
                        stride = s.tc.size_align(tr.el)[0]; tcur = tr.el
                    else: raise IRError('gep into ' + repr(tr))
                if io[0] == 'k': coff += io[1] * stride
                else: steps.append((io, stride, s.tc.resolve(ity).bits))
            return Ins('gep', dst, (p[1],), x=(coff, steps), txt=txt)
        if op in ('call', 'invoke'):
            # callee: @name( or %reg(
            m = re.search(r'(@' + _ident + r'|%' + _ident + r')\s*\(', t)
            # the first '(' that follows the return type; function-pointer types in the return type contain '(' too
            # so search for the callee token immediately followed by '(' scanning from the left after the type
            body = re.sub(r'^(call|invoke)\s+((?:fastcc|ccc|coldcc|nnan|ninf|nsz|arcp|contract|afn|reassoc|fast|noundef|nonnull|signext|zeroext|noalias|inreg|align \d+|dereferenceable\(\d+\)|dereferenceable_or_null\(\d+\))\s+)*', '', t)
            rty, rest = s.tc.parse_prefix(body)
            rest = rest.lstrip()
            m = re.match(r'(@' + _ident + r'|%' + _ident + r')\s*\(', rest)
            if not m:
                if rest.startswith('asm') : raise IRError('inline asm')
                if rest.startswith('bitcast'):
                    # call through a constant bitcast of a function
                    mm = re.match(r'bitcast\s*\((.*?)(@' + _ident + r') to [^()]*(?:\([^()]*\))*[^()]*\)\s*\(', rest)
                    if not mm: raise IRError('call through constant expression: ' + rest[:80])
                    callee = mm.group(2); st0 = mm.end() - 1
                else: raise IRError('callee? ' + rest[:80])
            else:
                callee = m.group(1); st0 = m.end() - 1
            depthp = 0
            for k in range(st0, len(rest)):
                if rest[k] == '(': depthp += 1
                elif rest[k] == ')':
                    depthp -= 1
                    if depthp == 0: break
            argtxt = rest[st0 + 1:k]
            args = []; atys = []
            for a in split_top(argtxt):
                ty, v = s.typed(a)
                if ty.k == 'metadata': args.append(('k', None)); atys.append(ty); continue
                args.append(s.operand(ty, v)); atys.append(ty)
            if callee.startswith('@'):
                callee = s.resolve_alias(callee); cal = callee
            else: cal = ('r', callee)
            labs = None
            if op == 'invoke':
                l = s._labels(rest[k:]); labs = (l[0], l[1])
            ins = Ins(op, dst, tuple(args), ty=rty, x=cal, txt=txt)
            ins.trap = labs   # (normal, unwind) for invoke
            return ins
        if op == 'phi':
            ty, rest = s.tc.parse_prefix(t[4:])
            inc = {}
            for mm in re.finditer(r'\[\s*(.*?),\s*%(' + _ident + r')\s*\]', rest):
                lb = mm.group(2)
                if lb.startswith('"'): lb = lb[1:-1]
                inc[lb] = s.operand(ty, mm.group(1))
            return Ins('phi', dst, (), ty=ty, x=inc, txt=txt)
        if op == 'extractvalue':
            parts = split_top(t[len('extractvalue '):]); ty, o = s.top(parts[0])
            return Ins('extractvalue', dst, (o,), ty=ty, x=[int(i) for i in parts[1:]], txt=txt)
        if op == 'insertvalue':
            parts = split_top(t[len('insertvalue '):]); ty, o = s.top(parts[0]); ty2, o2 = s.top(parts[1])
            return Ins('insertvalue', dst, (o, o2), ty=ty, x=[int(i) for i in parts[2:]], txt=txt)
        if op == 'switch':
            m = re.match(r'switch (.*?), label %(' + _ident + r') \[(.*)\]', t)
            ty, o = s.top(m.group(1))
            w = s.tc.resolve(ty).bits
            cases = [(sgn(int(cv), w), lb) for cv, lb in re.findall(r'i\d+ (-?\d+), label %(' + _ident + ')', m.group(3))]
            return Ins('switch', None, (o,), ty=ty, x=(m.group(2), cases), txt=txt)
        if op == 'freeze':
            ty, o = s.top(t[7:]); return Ins('freeze', dst, (o,), ty=ty, txt=txt)
        if op == 'landingpad':
            m = re.match(r'landingpad (.*?)(?:\s+(cleanup|catch|filter)\b(.*))?$', t)
            ty, rest = s.tc.parse_prefix(t[len('landingpad '):])
            cleanup = bool(re.search(r'\bcleanup\b', rest))
            clauses = []
            for mm in re.finditer(r'\bcatch\s+(\S+\s+(?:null|@' + _ident + r'|bitcast\s*\(.*?\)))(?=\s+catch|\s+filter|\s*$)', rest):
                cty, cv = s.typed(mm.group(1)); clauses.append(s.const(cty, cv))
            if 'filter' in rest: raise IRError('landingpad filter')
            return Ins('landingpad', dst, (), ty=ty, x=(cleanup, clauses), txt=txt)
        if op == 'resume':
            ty, o = s.top(t[7:]); return Ins('resume', None, (o,), ty=ty, txt=txt)
        raise IRError('unhandled instruction: ' + t)

    # ---- CFG analysis for region merging
    def analyse(s, f):
        if f.ipdom is not None: return
        succ = {}
        dead = set(n for n, b in f.blocks.items() if b.term is not None and b.term.op == 'unreachable')
        for n, b in f.blocks.items():
            t = b.term
            if t is None: succ[n] = []; continue
            if t.op == 'condbr': l = list(t.x)
            elif t.op == 'br': l = [t.x]
            elif t.op == 'switch': l = [t.x[0]] + [lb for _, lb in t.x[1]]
            elif t.op == 'invoke': l = [t.trap[0]]     # exceptional edge ignored (handled by NeedFork at run time)
            else: l = []
            succ[n] = [x for x in l if x not in dead]
        EXIT = '\x00exit'
        nodes = [n for n in f.blocks if n not in dead] + [EXIT]
        for n in nodes:
            if n != EXIT and not succ.get(n): succ[n] = [EXIT]
        succ[EXIT] = []
        full = set(nodes)
        pd = {n: set(full) for n in nodes}; pd[EXIT] = {EXIT}
        changed = True
        while changed:
            changed = False
            for n in nodes:
                if n == EXIT: continue
                ss = [pd[x] for x in succ[n] if x in pd]
                new = set.intersection(*ss) if ss else set()
                new = new | {n}
                if new != pd[n]: pd[n] = new; changed = True
        f.ipdom = {}
        for n in nodes:
            if n == EXIT: continue
            cand = pd[n] - {n}; best = None
            for c in cand:
                if all((d in pd[c]) for d in cand): best = c; break
            f.ipdom[n] = best if best != EXIT else None
        # mergeable: region between n's successors and J does not contain n (no loop back) and is small
        f.mergeable = {}
        for n, b in f.blocks.items():
            if n in dead or b.term is None or b.term.op != 'condbr': continue
            J = f.ipdom.get(n)
            if J is None: continue
            seen = set(); stack = [x for x in succ[n]]
            ok = True
            while stack:
                x = stack.pop()
                if x == J or x in seen: continue
                if x == n or x == EXIT: ok = False; break
                seen.add(x)
                stack.extend(succ.get(x, []))
            if ok and len(seen) <= 40: f.mergeable[n] = J
