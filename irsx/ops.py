# irsx instruction semantics (non-control): integer domain = mathematical integers with range obligations
import z3, math, struct
from .ir import Ptr, NULL, UNDEF, sgn, T
from .values import SV, SF, Bundle, IV, TRUE, FALSE, zt, zb, rng, f32, tainted, szof, compact

def install(E):
    from .engine import EngineError, PathEnd, NeedFork

    def ival(v):
        return (v, v) if isinstance(v, int) else (v.lo, v.hi)

    def undef_to(s, st, v, ty):
        if v is UNDEF:
            t = s.tc.resolve(ty)
            if t.k == 'int':
                if t.bits == 1: return s.newbool('undef', taint=True)
                lo, hi = rng(t.bits); x = s.newsym(st, 'undef', lo, hi); x.taint = True; return x
            if t.k in ('float', 'double'): return s.fp_fresh(st, 32 if t.k == 'float' else 64, 'undef', taint=True)
            if t.k == 'ptr': return NULL
        return v

    # ---------------------------------------------------------- integer binary ops
    def binop(s, st, op, x, y, w, flags=()):
        if isinstance(x, Bundle) or isinstance(y, Bundle):
            return bundle_op(s, st, op, x, y, w)
        if isinstance(x, Ptr) or isinstance(y, Ptr) or isinstance(x, tuple) or isinstance(y, tuple):
            if op == 'sub' and isinstance(x, Ptr) and isinstance(y, Ptr):
                if x.obj != y.obj: raise s.fail(st, 'ub', 'subtraction of pointers into different objects')
                return binop(s, st, 'sub', x.off, y.off, w, flags)
            if op == 'and' and isinstance(x, Ptr) and isinstance(y, int) and 0 <= y < 8: return 0    # alignment / virtual-bit test of a pointer (pointer-to-member call)
            if op in ('add', 'sub') and isinstance(x, Ptr) and isinstance(y, (int, SV)):
                return Ptr(x.obj, binop(s, st, op, x.off, y, 64, flags))
            raise EngineError('integer arithmetic on pointer value (%s)' % op)
        cx = isinstance(x, int); cy = isinstance(y, int)
        if cx and cy:
            if op == 'add': return sgn(x + y, w)
            if op == 'sub': return sgn(x - y, w)
            if op == 'mul': return sgn(x * y, w)
            ux = x & ((1 << w) - 1); uy = y & ((1 << w) - 1)
            if op == 'and': return sgn(ux & uy, w) if w > 1 else ux & uy
            if op == 'or': return sgn(ux | uy, w) if w > 1 else ux | uy
            if op == 'xor': return sgn(ux ^ uy, w) if w > 1 else ux ^ uy
            if op == 'shl': return sgn(ux << uy, w) if uy < w else 0
            if op == 'lshr': return sgn(ux >> uy, w) if uy < w else 0
            if op == 'ashr': return x >> min(uy, w - 1)
            if op in ('sdiv', 'srem'):
                if y == 0: raise s.fail(st, 'ub', 'division by zero')
                q = abs(x) // abs(y) * (1 if (x < 0) == (y < 0) else -1)
                return sgn(q if op == 'sdiv' else x - q * y, w)
            if op in ('udiv', 'urem'):
                if uy == 0: raise s.fail(st, 'ub', 'division by zero')
                return sgn(ux // uy if op == 'udiv' else ux % uy, w)
            raise EngineError('binop ' + op)
        tn = tainted(x, y)
        if w == 1:
            if op in ('xor', 'add', 'sub'):
                if cy and y == 1: return SV(z3.Not(zb(x)), 0, 1, taint=tn)
                if cx and x == 1: return SV(z3.Not(zb(y)), 0, 1, taint=tn)
                if cy and y == 0: return x
                if cx and x == 0: return y
                return SV(z3.Xor(zb(x), zb(y)), 0, 1, taint=tn)
            if op in ('and', 'mul'):
                if cy: return x if y else 0
                if cx: return y if x else 0
                return SV(z3.And(zb(x), zb(y)), 0, 1, taint=tn)
            if op == 'or':
                if cy: return 1 if y else x
                if cx: return 1 if x else y
                return SV(z3.Or(zb(x), zb(y)), 0, 1, taint=tn)
            raise EngineError('i1 op ' + op)
        xl, xh = ival(x); yl, yh = ival(y)
        if op == 'add':
            r = compact(SV(zt(x) + zt(y), xl + yl, xh + yh, taint=tn, sz=szof(x) + szof(y) + 1)); return s.wrap(st, r, w)
        if op == 'sub':
            r = compact(SV(zt(x) - zt(y), xl - yh, xh - yl, taint=tn, sz=szof(x) + szof(y) + 1)); return s.wrap(st, r, w)
        if op == 'mul':
            ps = (xl * yl, xl * yh, xh * yl, xh * yh)
            r = compact(SV(zt(x) * zt(y), min(ps), max(ps), taint=tn, sz=szof(x) + szof(y) + 1)); return s.wrap(st, r, w)
        if op == 'shl':
            if not cy: raise EngineError('shift by symbolic amount')
            if y < 0 or y >= w: raise s.fail(st, 'ub', 'shift amount out of range')
            k = 1 << y
            r = s.wrap(st, SV(zt(x) * k, xl * k, xh * k, taint=tn), w)
            if isinstance(r, SV): r.al = y
            return r
        if op in ('lshr', 'ashr'):
            if not cy: raise EngineError('shift by symbolic amount')
            if y < 0 or y >= w: raise s.fail(st, 'ub', 'shift amount out of range')
            k = 1 << y
            if op == 'lshr':
                ux = s.tounsigned(x, w)
                return s.fromunsigned(SV(ux.t / k, ux.lo // k, ux.hi // k, taint=tn), w)
            return SV(zt(x) / k, xl // k, xh // k, taint=tn)   # z3 int division by positive constant is floor
        if op in ('sdiv', 'srem', 'udiv', 'urem') and not cy and yh - yl <= 16:
            y = s.concretize(st, y); cy = True; yl = yh = y      # small-range divisor: case split (keeps the arithmetic linear)
            if cx: return binop(s, st, op, x, y, w, flags)
        if op in ('sdiv', 'srem'):
            if (yl <= 0 <= yh):
                s.check_vc(st, zt(y) == 0, 'ub', 'division by zero')
            if cy and y > 0 and xl >= 0:
                q = SV(zt(x) / y, xl // y, xh // y, taint=tn)
            else:
                a = zt(x); b = zt(y)
                ab = z3.If(b > 0, b, -b)
                qq = z3.If(a >= 0, a / ab, -((-a) / ab))
                qq = z3.If(b > 0, qq, -qq)
                m = max(abs(xl), abs(xh))
                q = SV(qq, -m, m, taint=tn)
            if op == 'sdiv': return s.wrap(st, q, w)
            m = max(abs(yl), abs(yh))
            rl = 0 if xl >= 0 else -(m - 1); rh = 0 if xh <= 0 else (m - 1)
            return SV(zt(x) - q.t * zt(y), rl, rh, taint=tn)
        if op in ('udiv', 'urem'):
            ux = s.tounsigned(x, w); uy = s.tounsigned(y, w)
            uyl, uyh = ival(uy)
            if uyl <= 0: s.check_vc(st, zt(uy) == 0, 'ub', 'division by zero')
            uxl, uxh = ival(ux)
            q = SV(zt(ux) / zt(uy), uxl // max(uyh, 1), uxh // max(uyl, 1), taint=tn)
            if op == 'udiv': return s.fromunsigned(q, w)
            return s.fromunsigned(SV(zt(ux) - q.t * zt(uy), 0, min(uxh, max(uyh - 1, 0)), taint=tn), w)
        if op in ('and', 'or', 'xor'):
            # boolean-valued operands stored in wider integers
            if xl >= 0 and xh <= 1 and yl >= 0 and yh <= 1:
                bx, by = zb(x) if not cx else (TRUE if x else FALSE), zb(y) if not cy else (TRUE if y else FALSE)
                bt = {'and': z3.And, 'or': z3.Or, 'xor': z3.Xor}[op](bx, by)
                return SV(z3.If(bt, IV(1), IV(0)), 0, 1, b=bt, taint=tn)
            if op == 'and':
                c, v = (y, x) if cy else ((x, y) if cx else (None, None))
                if c is not None:
                    if c == -1: return v
                    if c == 0: return 0
                    uc = c & ((1 << w) - 1)
                    if uc & (uc + 1) == 0:     # low mask 2^k - 1
                        vl, vh = ival(v)
                        if vl >= 0 and vh <= uc: return v
                        uv = s.tounsigned(v, w)
                        return s.fromunsigned(SV(uv.t % (uc + 1), 0, uc, taint=tn), w)
                    # high mask ~(2^k - 1): clear low bits
                    low = (~uc) & ((1 << w) - 1)
                    if low & (low + 1) == 0 and xl >= 0:
                        kk = low + 1
                        vl, vh = ival(v)
                        return SV((zt(v) / kk) * kk, (vl // kk) * kk, vh, taint=tn)
            if op == 'or' or op == 'xor':
                # disjoint bit ranges (struct fields packed into one integer): low part in [0, 2^k), high part a multiple of 2^k
                for lo_, hi_ in ((x, y), (y, x)):
                    ll, lh = ival(lo_)
                    if ll >= 0:
                        k = lh.bit_length()
                        hal = (hi_.al if isinstance(hi_, SV) else ((hi_ & -hi_).bit_length() - 1 if hi_ != 0 else 64))
                        if hal >= k:
                            hl, hh = ival(hi_)
                            return s.wrap(st, SV(zt(lo_) + zt(hi_), ll + hl, lh + hh, taint=tn), w)
                c, v = (y, x) if cy else ((x, y) if cx else (None, None))
                if c == 0: return v
                if op == 'xor' and c == -1:
                    vl, vh = ival(v); return SV(-zt(v) - 1, -vh - 1, -vl - 1, taint=tn)
            raise EngineError('bitwise %s on symbolic i%d operands %r %r' % (op, w, x, y))
        raise EngineError('binop ' + op)
    E.binop = binop

    def bundle_op(s, st, op, x, y, w):
        if isinstance(x, Bundle) and isinstance(y, int):
            if op == 'lshr' and y % 8 == 0:
                sh = y // 8
                parts = [(k - sh, v, n) for (k, v, n) in x.parts if k >= sh]
                if len(parts) == 1 and parts[0][0] == 0:
                    return s.tounsigned_zero_extend(parts[0][1], parts[0][2] * 8, w)
                return Bundle(parts, x.nb)
            if op == 'and' and y in (0xff, 0xffff, 0xffffffff):
                nb = {0xff: 1, 0xffff: 2, 0xffffffff: 4}[y]
                for (k, v, n) in x.parts:
                    if k == 0 and n == nb: return s.tounsigned_zero_extend(v, n * 8, w)
        raise EngineError('arithmetic on byte bundle: %s %r %r' % (op, x, y))
    def tounsigned_zero_extend(s, v, w1, w2):
        if isinstance(v, (Ptr, float, SF)): return v
        return s.fromunsigned(s.tounsigned(v, w1), w2) if w2 > w1 else v
    E.tounsigned_zero_extend = tounsigned_zero_extend

    def op_arith(s, st, fr, ins):
        x = undef_to(s, st, s.get(fr, ins.a[0]), ins.ty); y = undef_to(s, st, s.get(fr, ins.a[1]), ins.ty)
        fr.regs[ins.dst] = binop(s, st, ins.op, x, y, s.tc.resolve(ins.ty).bits, ins.x)
        fr.ip += 1
    for o in ('add', 'sub', 'mul', 'and', 'or', 'xor', 'shl', 'lshr', 'ashr', 'sdiv', 'udiv', 'srem', 'urem'):
        setattr(E, 'op_' + o, op_arith)

    # ---------------------------------------------------------- icmp
    def icmp(s, st, pred, x, y, w):
        if isinstance(x, tuple) and x[0] == 'pite':
            return s.ite(x[1], icmp(s, st, pred, x[2], y, w), icmp(s, st, pred, x[3], y, w))
        if isinstance(y, tuple) and y[0] == 'pite':
            return s.ite(y[1], icmp(s, st, pred, x, y[2], w), icmp(s, st, pred, x, y[3], w))
        if isinstance(x, Ptr) or isinstance(y, Ptr):
            if not (isinstance(x, Ptr) and isinstance(y, Ptr)):
                if isinstance(x, int) and x == 0: x = NULL
                elif isinstance(y, int) and y == 0: y = NULL
                else: raise EngineError('pointer/integer comparison')
            if x.obj != y.obj:
                if pred == 'eq': return 0
                if pred == 'ne': return 1
                raise s.fail(st, 'ub', 'relational comparison of pointers into different objects')
            x, y, w = x.off, y.off, 64
        if isinstance(x, Bundle) or isinstance(y, Bundle): raise EngineError('compare on byte bundle')
        if x is UNDEF or y is UNDEF: raise EngineError('compare on undef')
        cx = isinstance(x, int); cy = isinstance(y, int)
        if pred[0] == 'u' and w > 1:
            x = s.tounsigned(x, w); y = s.tounsigned(y, w); pred = 's' + pred[1:]
            cx = isinstance(x, int); cy = isinstance(y, int)
        if cx and cy:
            return int({'eq': x == y, 'ne': x != y, 'slt': x < y, 'sle': x <= y, 'sgt': x > y, 'sge': x >= y,
                        'ult': x < y, 'ule': x <= y, 'ugt': x > y, 'uge': x >= y}[pred])
        tn = tainted(x, y)
        if w == 1:
            a, b = zb(x), zb(y)
            if pred == 'eq': return SV(a == b, 0, 1, taint=tn)
            if pred == 'ne': return SV(z3.Xor(a, b), 0, 1, taint=tn)
            raise EngineError('i1 relational compare')
        xl, xh = ival(x); yl, yh = ival(y)
        if pred == 'eq':
            if xh < yl or yh < xl: return 0
            # boolean in wider int compared against 0/1
            if cy and isinstance(x, SV) and x.b is not None and xl >= 0 and xh <= 1: return SV(x.b if y == 1 else z3.Not(x.b), 0, 1, taint=tn) if y in (0, 1) else 0
            return SV(zt(x) == zt(y), 0, 1, taint=tn)
        if pred == 'ne':
            if xh < yl or yh < xl: return 1
            if cy and isinstance(x, SV) and x.b is not None and xl >= 0 and xh <= 1: return SV(z3.Not(x.b) if y == 1 else x.b, 0, 1, taint=tn) if y in (0, 1) else 1
            return SV(zt(x) != zt(y), 0, 1, taint=tn)
        if pred == 'slt':
            if xh < yl: return 1
            if xl >= yh: return 0
            return SV(zt(x) < zt(y), 0, 1, taint=tn)
        if pred == 'sle':
            if xh <= yl: return 1
            if xl > yh: return 0
            return SV(zt(x) <= zt(y), 0, 1, taint=tn)
        if pred == 'sgt':
            if xl > yh: return 1
            if xh <= yl: return 0
            return SV(zt(x) > zt(y), 0, 1, taint=tn)
        if pred == 'sge':
            if xl >= yh: return 1
            if xh < yl: return 0
            return SV(zt(x) >= zt(y), 0, 1, taint=tn)
        raise EngineError('icmp ' + pred)
    E.icmp = icmp
    def op_icmp(s, st, fr, ins):
        t = s.tc.resolve(ins.ty)
        x = s.get(fr, ins.a[0]); y = s.get(fr, ins.a[1])
        if t.k == 'int': x = undef_to(s, st, x, ins.ty); y = undef_to(s, st, y, ins.ty)
        fr.regs[ins.dst] = icmp(s, st, ins.x, x, y, t.bits if t.k == 'int' else 64)
        fr.ip += 1
    E.op_icmp = op_icmp

    # ---------------------------------------------------------- casts
    def op_cast(s, st, fr, ins):
        op = ins.op
        x = s.get(fr, ins.a[0])
        t1 = s.tc.resolve(ins.ty); t2 = s.tc.resolve(ins.x)
        if op == 'bitcast' or op == 'addrspacecast':
            if t1.k == t2.k or (t1.k in ('ptr',) and t2.k in ('ptr',)): r = x
            else: r = s.retype(x, t2) if not isinstance(x, (SV, SF)) else bitcast_sym(s, x, t1, t2)
        elif op == 'sext':
            x = undef_to(s, st, x, ins.ty)
            if t1.bits == 1:
                r = -x if isinstance(x, int) else SV(z3.If(zb(x), IV(-1), IV(0)), -1, 0, taint=x.taint)
            else: r = x
        elif op == 'zext':
            x = undef_to(s, st, x, ins.ty)
            if isinstance(x, Bundle): r = x
            elif t1.bits == 1:
                if isinstance(x, int): r = x & 1
                else: r = SV(z3.If(zb(x), IV(1), IV(0)), 0, 1, b=zb(x), taint=x.taint)
            else: r = s.tounsigned(x, t1.bits) if isinstance(x, (int, SV)) else x
        elif op == 'trunc':
            x = undef_to(s, st, x, ins.ty)
            w2 = t2.bits
            if isinstance(x, Bundle):
                r = None
                for (k, v, n) in x.parts:
                    if k == 0 and n * 8 == w2: r = v; break
                if r is None:
                    parts = [(k, v, n) for (k, v, n) in x.parts if k + n <= w2 // 8]
                    if parts and sum(p[2] for p in parts) == w2 // 8: r = Bundle(parts, w2 // 8)
                    elif not parts and not any(k < (w2 + 7) // 8 for (k, v, n) in x.parts): r = UNDEF   # only padding bytes selected
                    elif parts: r = Bundle(parts, (w2 + 7) // 8)
                    else: raise EngineError('trunc of bundle %r to i%d' % (x, w2))
            elif isinstance(x, Ptr): r = x
            elif isinstance(x, int): r = sgn(x, w2) if w2 > 1 else x & 1
            elif w2 == 1:
                if x.b is not None: r = SV(x.b, 0, 1, taint=x.taint)
                elif x.lo >= 0 and x.hi <= 1: r = SV(x.t == 1, 0, 1, taint=x.taint)
                else: r = SV(x.t % 2 == 1, 0, 1, taint=x.taint)
            else:
                lo, hi = rng(w2)
                if x.lo >= lo and x.hi <= hi: r = x
                else:
                    m = 1 << w2
                    r = SV(((x.t + (1 << (w2 - 1))) % m) - (1 << (w2 - 1)), lo, hi, taint=x.taint)
        elif op == 'ptrtoint':
            if isinstance(x, Ptr) and x.obj == 0 and isinstance(x.off, int): r = x.off
            else: r = x      # pointer carried as integer (address is not data): only inttoptr/compare may consume it
        elif op == 'inttoptr':
            if isinstance(x, Ptr): r = x
            elif isinstance(x, int) and x == 0: r = NULL
            else: raise EngineError('inttoptr of non-pointer integer')
        elif op in ('sitofp', 'uitofp'):
            x = undef_to(s, st, x, ins.ty)
            if op == 'uitofp' and t1.bits > 1: x = s.tounsigned(x, t1.bits)
            r = s.fp_from_int(st, x, 32 if t2.k == 'float' else 64)
        elif op in ('fptosi', 'fptoui'):
            r = s.fp_to_int(st, x, 32 if t1.k == 'float' else 64, t2.bits, op == 'fptosi')
        elif op == 'fpext': r = s.fp_ext(st, x)
        elif op == 'fptrunc': r = s.fp_trunc(st, x)
        else: raise EngineError('cast ' + op)
        fr.regs[ins.dst] = r
        fr.ip += 1
    for o in ('sext', 'zext', 'trunc', 'bitcast', 'ptrtoint', 'inttoptr', 'sitofp', 'uitofp', 'fptosi', 'fptoui', 'fpext', 'fptrunc', 'addrspacecast'):
        setattr(E, 'op_' + o, op_cast)
    def bitcast_sym(s, x, t1, t2):
        raise EngineError('bitcast of symbolic value between %r and %r' % (t1, t2))

    # ---------------------------------------------------------- select / freeze / aggregates
    def op_select(s, st, fr, ins):
        c = s.get(fr, ins.a[0]); a = s.get(fr, ins.a[1]); b = s.get(fr, ins.a[2])
        if isinstance(c, int): r = a if c else b
        elif c is UNDEF: raise EngineError('select on undef')
        else:
            a = undef_to(s, st, a, ins.ty); b = undef_to(s, st, b, ins.ty)
            try:
                r = s.ite(zb(c), a, b)
                if isinstance(r, SV) and c.taint: r.taint = c.taint
            except NeedFork:
                d = s.branch(st, zb(c)); r = a if d else b
        fr.regs[ins.dst] = r; fr.ip += 1
    E.op_select = op_select
    def op_freeze(s, st, fr, ins):
        fr.regs[ins.dst] = undef_to(s, st, s.get(fr, ins.a[0]), ins.ty); fr.ip += 1
    E.op_freeze = op_freeze
    def op_extractvalue(s, st, fr, ins):
        agg = s.get(fr, ins.a[0])
        for i in ins.x: agg = agg[i]
        fr.regs[ins.dst] = agg; fr.ip += 1
    E.op_extractvalue = op_extractvalue
    def op_insertvalue(s, st, fr, ins):
        agg = s.get(fr, ins.a[0]); v = s.get(fr, ins.a[1])
        if agg is UNDEF: agg = s.mod.zero(ins.ty)
        def cp(a, idx):
            a = list(a)
            if len(idx) == 1: a[idx[0]] = v
            else: a[idx[0]] = cp(a[idx[0]], idx[1:])
            return a
        fr.regs[ins.dst] = cp(agg, ins.x); fr.ip += 1
    E.op_insertvalue = op_insertvalue
    def op_phi(s, st, fr, ins): raise EngineError('phi executed directly')
    E.op_phi = op_phi

    # ---------------------------------------------------------- memory
    def op_alloca(s, st, fr, ins):
        n = s.get(fr, ins.a[0])
        if not isinstance(n, int): n = s.concretize(st, n)
        sz = s.tc.size_align(ins.ty)[0] * n
        p = s.alloc(st, sz, 'alloca %s in %s' % (ins.dst, fr.fn.name), 'alloca')
        fr.allocas.append(p.obj)
        fr.regs[ins.dst] = p; fr.ip += 1
    E.op_alloca = op_alloca
    def op_load(s, st, fr, ins):
        p = s.get(fr, ins.a[0])
        fr.regs[ins.dst] = s.load(st, p, ins.ty); fr.ip += 1
    E.op_load = op_load
    def op_store(s, st, fr, ins):
        v = s.get(fr, ins.a[0]); p = s.get(fr, ins.a[1])
        if v is UNDEF: fr.ip += 1; return
        s.store(st, p, v, ins.ty); fr.ip += 1
    E.op_store = op_store
    def op_gep(s, st, fr, ins):
        base = s.get(fr, ins.a[0])
        coff, steps = ins.x
        if isinstance(base, tuple) and base[0] == 'pite':
            fr.regs[ins.dst] = ('pite', base[1], gep1(s, st, fr, base[2], coff, steps), gep1(s, st, fr, base[3], coff, steps)); fr.ip += 1; return
        fr.regs[ins.dst] = gep1(s, st, fr, base, coff, steps); fr.ip += 1
    def gep1(s, st, fr, base, coff, steps):
        if not isinstance(base, Ptr):
            if base is UNDEF: raise EngineError('gep on undef')
            raise EngineError('gep on non-pointer %r' % (base,))
        off = base.off
        if coff: off = s.addoff(off, coff)
        for (io, stride, w) in steps:
            iv = fr.regs[io[1]]
            if isinstance(iv, int):
                off = s.addoff(off, iv * stride)
            elif isinstance(iv, SV):
                if isinstance(off, int): off = SV(iv.t * stride + off, iv.lo * stride + off, iv.hi * stride + off, taint=iv.taint)
                else: off = SV(off.t + iv.t * stride, off.lo + iv.lo * stride, off.hi + iv.hi * stride, taint=tainted(off, iv))
            else: raise EngineError('gep index %r' % (iv,))
        return Ptr(base.obj, off)
    E.op_gep = op_gep

    # ---------------------------------------------------------- floating point
    from . import fp
    fp.install(E)
