# irsx: path-wise symbolic executor over pre-decoded LLVM IR; z3 decides every verification condition.
import z3, time, math, struct, itertools
from .ir import Module, Ptr, NULL, UNDEF, sgn, Ins, T, IRError, UBSAN_KINDS, TRAP_FUNCS
from .values import SV, SF, Bundle, IV, TRUE, FALSE, zt, zb, rng, f32, tainted, szof, compact

class EngineError(Exception): pass        # unsupported construct: run is inconclusive, never a pass
class PathEnd(Exception):                  # this path stops (assume false, bound hit, ...)
    def __init__(s, why='assume'): s.why = why
class PathDone(Exception):                 # harness entry returned
    def __init__(s, ret=None): s.ret = ret
class NeedFork(Exception): pass            # raised in no-fork (merge side) mode when a real fork would be required
class StopReached(Exception): pass         # merge side reached the join block
class NeedChoice(Exception):
    def __init__(s, n): s.n = n
class Probe(Exception): pass             # probe run reached its first real fork

class Obj:
    __slots__ = ('size', 'cells', 'name', 'owner', 'ro', 'bytes', 'kind')
    def __init__(s, size, name='', owner=0, kind='heap'):
        s.size = size; s.cells = {}; s.name = name; s.owner = owner; s.ro = None; s.bytes = None; s.kind = kind
    def clone(s, owner):
        o = Obj(s.size, s.name, owner, s.kind); o.cells = dict(s.cells); o.ro = s.ro; o.bytes = s.bytes; return o

class Frame:
    __slots__ = ('fn', 'regs', 'blk', 'ip', 'prev', 'allocas', 'lc')
    def __init__(s, fn): s.fn = fn; s.regs = {}; s.blk = None; s.ip = 0; s.prev = None; s.allocas = []; s.lc = None
    def clone(s):
        f = Frame(s.fn); f.regs = dict(s.regs); f.blk = s.blk; f.ip = s.ip; f.prev = s.prev; f.allocas = list(s.allocas)
        f.lc = None if s.lc is None else dict(s.lc); return f

_sid = itertools.count(1)
class State:
    def __init__(s):
        s.frames = []; s.objs = {}; s.pc = []; s.next_obj = 0; s.exc = None; s.caught = []
        s.draws = []; s.observes = []; s.sid = next(_sid); s.model = None; s.steps = 0
        s.nchoice = 0; s.notes = []; s.tasks = None; s.decisions = 0; s.clock = None; s.loopcnt = {}; s.fidx = 0; s.facts = {}; s.havoc_used = False
    def clone(s):
        n = State()
        s.sid = next(_sid)      # objects owned so far become shared by both states (copy on write)
        n.frames = [f.clone() for f in s.frames]
        n.objs = dict(s.objs); n.pc = list(s.pc); n.next_obj = s.next_obj; n.exc = s.exc; n.caught = list(s.caught)
        n.draws = list(s.draws); n.observes = list(s.observes); n.model = s.model; n.steps = s.steps
        n.nchoice = s.nchoice; n.notes = list(s.notes); n.decisions = s.decisions; n.clock = s.clock
        n.tasks = None if s.tasks is None else {k: ((set(v[0]), set(v[1])) if isinstance(v, tuple) else v) for k, v in s.tasks.items()}
        n.loopcnt = dict(s.loopcnt); n.fidx = s.fidx; n.facts = dict(s.facts); n.havoc_used = s.havoc_used
        if getattr(s, 'havoc_range', None) is not None: n.havoc_range = s.havoc_range
        if 'flmemo' in s.__dict__: n.flmemo = dict(s.flmemo)
        if 'rngcache' in s.__dict__: n.rngcache = dict(s.rngcache)
        return n

class Engine:
    def __init__(s, mod, cfg=None):
        s.mod = mod; s.tc = mod.tc
        c = dict(fp='havoc', max_steps=2_000_000, query_timeout_ms=20000, merge=True, merge_budget=6000, max_merge_depth=4,
                 max_paths=None, loop_cap=None, time_budget=None)
        if cfg: c.update(cfg)
        s.cfg = c
        s.solver = z3.SolverFor(c['logic']) if c.get('logic') else z3.Solver()
        s.solver.set('timeout', c['query_timeout_ms'])
        s.active = None; s.scope_depth = 0
        s.gobjs = {}            # materialised global objects (templates, owner 0)
        s.nofork = 0
        s.fresh = 0
        s.forced = ()
        s.stats = dict(paths=0, paths_done=0, paths_assume=0, paths_bound=0, forks=0, merges=0, merge_fail=0, instrs=0,
                       solver_calls=0, solver_time=0.0, sat=0, unsat=0, unknown=0, interval_decided=0, model_hits=0)
        s.vc = {}               # kind -> dict(proved=, violated=, unknown=, trivial=)
        s.violations = []       # list of dicts
        s.viol_keys = {}
        s.covers = {}
        s.bound_hits = {}
        s.funcs_run = set()
        s.samples = []
        s.choices = []
        s.smt_dump = []         # sampled discharged VCs for the cvc5 cross-check
        s.dump_every = c.get('dump_every', 0)
        s.unknown_vcs = []
        s.t0 = time.time()
        s.H = {k[3:]: getattr(s, k) for k in dir(s) if k.startswith('op_')}
        s.builtins = {}
        s._bcache = {}
        from . import builtins as B
        B.install(s)
        s.typeid = {}

    # ================================================================ solver
    def activate(s, st):
        if s.active is st: return
        while s.scope_depth > 0: s.solver.pop(); s.scope_depth -= 1
        s.solver.push(); s.scope_depth = 1
        for c in st.pc: s.solver.add(c)
        s.active = st
    def add_pc(s, st, c):
        st.pc.append(c)
        if s.active is st: s.solver.add(c)
        if st.model is not None:
            try:
                if not z3.is_true(st.model.eval(c, model_completion=True)): st.model = None
            except z3.Z3Exception: st.model = None
    def query(s, st, extra, want_model=False):
        """is pc /\ extra satisfiable?  -> ('sat', model) | ('unsat', None) | ('unknown', None)"""
        s.activate(st)
        s.stats['solver_calls'] += 1; t = time.time()
        s.solver.push()
        try:
            s.solver.add(extra)
            r = s.solver.check()
            m = s.solver.model() if r == z3.sat else None
        finally:
            s.solver.pop()
        s.stats['solver_time'] += time.time() - t
        if r == z3.sat: s.stats['sat'] += 1; return 'sat', m
        if r == z3.unsat: s.stats['unsat'] += 1; return 'unsat', None
        s.stats['unknown'] += 1; return 'unknown', None
    def model_says(s, st, cond):
        if st.model is None: return None
        try:
            v = st.model.eval(cond, model_completion=True)
        except z3.Z3Exception: return None
        if z3.is_true(v): return True
        if z3.is_false(v): return False
        return None
    def feasible2(s, st, cond):
        """-> (true_feasible, false_feasible) with values True/False/None(unknown); keeps st.model valid for one side"""
        ms = s.model_says(st, cond)
        nc = z3.Not(cond)
        if ms is True:
            s.stats['model_hits'] += 1
            r, m = s.query(st, nc)
            return True, (True if r == 'sat' else False if r == 'unsat' else None), None, m
        if ms is False:
            s.stats['model_hits'] += 1
            r, m = s.query(st, cond)
            return (True if r == 'sat' else False if r == 'unsat' else None), True, m, None
        r1, m1 = s.query(st, cond)
        if r1 == 'unsat': return False, True, None, None
        r2, m2 = s.query(st, nc)
        return (True if r1 == 'sat' else None), (True if r2 == 'sat' else False if r2 == 'unsat' else None), m1, m2

    # ================================================================ symbols
    def newsym(s, st, name, lo, hi, kind='int'):
        s.fresh += 1
        nm = '%s!%d' % (name, s.fresh)
        t = z3.Int(nm)
        v = SV(t, lo, hi)
        s.add_pc(st, z3.And(t >= lo, t <= hi))
        return v
    def newbool(s, name, taint=False):
        s.fresh += 1
        return SV(z3.Bool('%s!%d' % (name, s.fresh)), 0, 1, taint=taint)

    # ================================================================ VCs
    def vc_count(s, kind, what):
        d = s.vc.setdefault(kind, dict(proved=0, violated=0, unknown=0, trivial=0))
        d[what] += 1
    def where(s, st):
        fr = st.frames[-1] if st.frames else None
        if fr is None: return ('?', '?')
        return (fr.fn.name, fr.blk.name)
    def stack(s, st):
        return [f.fn.name for f in st.frames]
    def check_vc(s, st, bad, kind, msg, good=None):
        """bad: z3 Bool (or python bool) describing the violation on this path.  Records the result; afterwards assumes not bad."""
        if isinstance(bad, bool) or isinstance(bad, int):
            if not bad: s.vc_count(kind, 'trivial'); return
            # the assertion is false on this path: a violation if the path is feasible.  Feasibility is re-decided here because a
            # branch whose query timed out keeps both sides.
            m = st.model
            if m is None:
                r, m = s.query(st, TRUE)
                if r == 'unsat': raise PathEnd('infeasible')
                if r != 'sat':
                    s.vc_count(kind, 'unknown'); s.unknown_vcs.append(dict(kind=kind, msg=msg + ' (path feasibility undecided)', where=s.where(st)))
                    raise PathEnd('unknown')
                st.model = m
            s.vc_count(kind, 'violated')
            s.record_violation(st, kind, msg, m)
            raise PathEnd('violation')
        key = bad.get_id()
        fk = st.facts.get(key)
        if fk is not None and fk[1] is False:
            s.vc_count(kind, 'proved'); s.stats['fact_hits'] = s.stats.get('fact_hits', 0) + 1
            return
        ms = s.model_says(st, bad)
        if ms is True:
            r, m = 'sat', st.model
        else:
            r, m = s.query(st, bad)
        if r == 'unsat':
            st.facts[key] = (bad, False)    # the term is kept alive: z3 reuses AST ids of freed terms
            s.vc_count(kind, 'proved')
            s.maybe_dump(st, bad, kind, msg)
        elif r == 'sat':
            s.vc_count(kind, 'violated')
            memo = st.__dict__.get('flmemo')
            if memo and s.cfg.get('fp') == 'real':
                # prefer a counterexample that does not lean on the rounding slack (all roundings exact): it replays natively
                try:
                    exact = [res.t == e for (e, res) in memo.values() if not res.exact]
                    if exact:
                        r3, m3 = s.query(st, z3.And(bad, *exact))
                        if r3 == 'sat' and m3 is not None: m = m3
                except Exception: pass
            s.record_violation(st, kind, msg, m, bad)
        else:
            s.vc_count(kind, 'unknown')
            s.unknown_vcs.append(dict(kind=kind, msg=msg, where=s.where(st)))
        if r != 'unsat':
            nb = z3.Not(bad) if good is None else good
            r2, m2 = s.query(st, nb)
            if r2 == 'unsat': raise PathEnd('violation')
            s.add_pc(st, nb)
            if m2 is not None: st.model = m2
        else:
            st.pc.append(z3.Not(bad) if good is None else good)   # implied; keep for merges but do not burden the solver
            # (not added to the solver: it is implied by the current constraints)
            if s.active is st: pass
    def maybe_dump(s, st, bad, kind, msg):
        if not s.dump_every: return
        n = s.vc.get(kind, {}).get('proved', 0)
        tot = sum(d['proved'] for d in s.vc.values())
        if tot % s.dump_every == 0 and len(s.smt_dump) < 40:
            sol = z3.Solver()
            for c in st.pc: sol.add(c)
            sol.add(bad)
            s.smt_dump.append((kind, msg, sol.to_smt2()))
    def model_draws(s, st, m):
        out = []
        for (kind, term, lo, hi) in st.draws:
            if m is None or term is None: out.append(dict(kind=kind, v=lo if kind != 'f' else 0.0)); continue
            v = m.eval(term, model_completion=True)
            if kind in ('i', 'l'):
                try: iv = v.as_long()
                except Exception: iv = lo
                out.append(dict(kind=kind, v=iv))
            else:
                out.append(dict(kind=kind, v=s.fp_model_value(v)))
        return out
    def fp_model_value(s, v):
        try:
            if z3.is_fp(v):
                if z3.is_fprm(v): return 0.0
                return float(z3.simplify(z3.fpToReal(v)).as_fraction()) if not (v.isNaN() or v.isInf()) else (math.nan if v.isNaN() else (math.inf if not v.isNegative() else -math.inf))
            if z3.is_rational_value(v): return float(v.as_fraction())
            if z3.is_algebraic_value(v): return float(v.approx(20).as_fraction())
        except Exception: pass
        return 0.0
    def record_violation(s, st, kind, msg, m, bad=None):
        w = s.where(st)
        key = (kind, msg, w[0])
        n = s.viol_keys.get(key, 0); s.viol_keys[key] = n + 1
        if n >= 3: return
        s.violations.append(dict(kind=kind, msg=msg, func=w[0], block=w[1], stack=s.stack(st), choices=list(s.choices[:st.nchoice]),
                                 draws=s.model_draws(st, m), notes=list(st.notes[-8:]), observes=len(st.observes)))
    def bound_hit(s, st, label):
        s.bound_hits[label] = s.bound_hits.get(label, 0) + 1
        raise PathEnd('bound')

    # ================================================================ memory
    def getobj(s, st, oid, write=False):
        o = st.objs.get(oid)
        if o is None:
            o = s.gobjs.get(oid)
            if o is None:
                o = s.materialise_global(oid)
                if o is None: raise s.fail(st, 'ub', 'access to dead or unknown object %s' % s.mod.oid_name.get(oid, oid))
            st.objs[oid] = o
        if write and o.owner != st.sid:
            o = o.clone(st.sid); st.objs[oid] = o
        return o
    def fail(s, st, kind, msg):
        m = st.model
        if m is None:
            r, m = s.query(st, TRUE)
            if r == 'unsat': return PathEnd('infeasible')
            if r != 'sat':
                s.vc_count(kind, 'unknown'); s.unknown_vcs.append(dict(kind=kind, msg=msg + ' (path feasibility undecided)', where=s.where(st)))
                return PathEnd('unknown')
            st.model = m
        s.vc_count(kind, 'violated')
        s.record_violation(st, kind, msg, m)
        return PathEnd('violation')
    def any_model(s, st):
        r, m = s.query(st, TRUE)
        if m is not None: st.model = m
        return m
    def materialise_global(s, oid):
        name = s.mod.oid_name.get(oid)
        g = s.mod.globals.get(name) if name else None
        if g is None: return None
        o = Obj(g.size, name, 0, 'global')
        if g.init is not None:
            val = s.mod.const(g.ty, g.init)
            s.write_const(o, 0, g.ty, val)
        elif g.size == 0:
            o.size = 1 << 20
        s.gobjs[oid] = o
        return o
    def write_const(s, o, off, ty, val):
        t = s.tc.resolve(ty)
        if t.k == 'struct':
            if isinstance(val, tuple) and val and val[0] == 'zeros': return
            for i, e in enumerate(t.els):
                fo, ft = s.tc.field_off(t, i); s.write_const(o, off + fo, ft, val[i])
        elif t.k == 'array':
            if isinstance(val, tuple) and val[0] == 'bytes':
                if o.bytes is None: o.bytes = {}
                o.bytes[off] = val[1]; return
            if isinstance(val, tuple) and val[0] == 'zeros': return
            sz = s.tc.size_align(t.el)[0]
            for i in range(t.n): s.write_const(o, off + i * sz, t.el, val[i])
        else:
            sz = s.tc.size_align(t)[0]
            if val is UNDEF: return
            if t.k == 'float': val = f32(val)
            o.cells[off] = (val, sz)
    def cstr(s, st, p):
        if not isinstance(p, Ptr) or p.obj == 0: return '<null>'
        try:
            o = s.getobj(st, p.obj)
        except PathEnd: return '<?>'
        if o.bytes:
            for boff, b in o.bytes.items():
                if isinstance(p.off, int) and boff <= p.off < boff + len(b):
                    e = b.find(b'\0', p.off - boff)
                    return b[p.off - boff:e if e >= 0 else None].decode('latin1')
        out = []; k = p.off if isinstance(p.off, int) else 0
        while k < o.size and len(out) < 200:
            c = o.cells.get(k)
            if c is None or not isinstance(c[0], int) or c[0] == 0: break
            out.append(chr(c[0] & 255)); k += 1
        return ''.join(out)
    def alloc(s, st, size, name, kind='heap'):
        st.next_obj += 1
        oid = s.mod.first_dyn_oid + st.next_obj
        st.objs[oid] = Obj(size, name, st.sid, kind)
        return Ptr(oid, 0)
    def check_ro(s, st, o, off, nb, p):
        if o.ro:
            for (a, b) in o.ro:
                if off < b and off + nb > a:
                    # recorded, but execution continues (the write happens): a later assertion on the public state can then
                    # confirm the violation natively, where the heap contents of containers are not covered by the snapshot
                    s.fail(st, 'protect', 'store into protected region of %s at offset %d (frame condition)' % (o.name, off))
                    return
        if o.kind == 'global':
            g = s.mod.globals.get(o.name)
            if g is not None and g.const: raise s.fail(st, 'ub', 'store into constant global ' + o.name)
            if s.cfg.get('global_writes_are_violations', True) and not o.name.startswith('@__verif') and not o.name.startswith('@_ZGV') and not o.name.startswith('@_ZSt'):
                raise s.fail(st, 'global-state', 'store into global ' + o.name)
    def offsets(s, st, off, nb, o, forstore=False):
        """concretise a symbolic offset without forking when possible -> list of (offset, cond or None)"""
        if isinstance(off, int): return [(off, None)]
        if off.lo == off.hi: return [(off.lo, None)]
        cands = [k for k, c in o.cells.items() if c[1] == nb and off.lo <= k <= off.hi]
        cands.sort()
        if cands and len(cands) <= 64:
            outside = z3.And(*[off.t != k for k in cands])
            r, _ = s.query(st, outside)
            if r == 'unsat':
                # drop infeasible candidates cheaply using the interval only
                return [(k, off.t == k) for k in cands]
        # fall back: fork over feasible values
        v = s.concretize(st, off)
        return [(v, None)]
    def concretize(s, st, v):
        if isinstance(v, int): return v
        if v.lo == v.hi: return v.lo
        while True:
            m = st.model if st.model is not None else s.any_model(st)
            if m is None: raise PathEnd('infeasible')
            cv = m.eval(v.t, model_completion=True).as_long()
            if s.branch(st, v.t == cv): return cv
    def load(s, st, p, ty):
        t = s.tc.resolve(ty)
        nb = s.tc.size_align(t)[0]
        if t.k in ('struct', 'array'):
            return s.load_agg(st, p, t)
        if not isinstance(p, Ptr):
            if isinstance(p, tuple) and p[0] == 'pite': return s.load_pite(st, p, ty)
            raise EngineError('load through non-pointer %r' % (p,))
        if p.obj == 0: raise s.fail(st, 'ub', 'null pointer dereference (load)')
        if p.obj in s.mod.oid_func: raise EngineError('load from function address')
        o = s.getobj(st, p.obj)
        offs = s.offsets(st, p.off, nb, o)
        if st.tasks is not None:
            for k, _ in offs: s.note_read(st, p.obj, k, nb)
        if len(offs) == 1:
            return s.load1(st, o, offs[0][0], nb, t)
        vals = [(s.load1(st, o, k, nb, t), c) for k, c in offs]
        try:
            r = vals[-1][0]
            for v, c in reversed(vals[:-1]): r = s.ite(c, v, r)
            return r
        except NeedFork:
            if s.nofork: raise
            k = s.concretize(st, p.off)
            return s.load1(st, o, k, nb, t)
    def load_pite(s, st, p, ty):
        _, c, a, b = p
        return s.ite(c, s.load(st, a, ty), s.load(st, b, ty))
    def load_agg(s, st, p, t):
        if t.k == 'struct':
            return [s.load(st, Ptr(p.obj, s.addoff(p.off, s.tc.field_off(t, i)[0])), e) for i, e in enumerate(t.els)]
        sz = s.tc.size_align(t.el)[0]
        return [s.load(st, Ptr(p.obj, s.addoff(p.off, i * sz)), t.el) for i in range(t.n)]
    def addoff(s, off, d):
        if d == 0: return off
        if isinstance(off, int): return off + d
        return SV(off.t + d, off.lo + d, off.hi + d, taint=off.taint)
    def load1(s, st, o, off, nb, t):
        if off < 0 or off + nb > o.size:
            raise s.fail(st, 'ub', 'out-of-bounds load: object %s size %d offset %d width %d' % (o.name, o.size, off, nb))
        c = o.cells.get(off)
        if c is not None and c[1] == nb:
            v = c[0]
            return s.retype(v, t)
        if o.bytes:
            for boff, b in o.bytes.items():
                if boff <= off and off + nb <= boff + len(b):
                    v = int.from_bytes(b[off - boff:off - boff + nb], 'little')
                    return sgn(v, nb * 8) if t.k == 'int' else v
        if (c is None or c[1] < nb) and t.k == 'int':
            # bundle of whole cells?
            parts = []; k = 0
            while k < nb:
                c2 = o.cells.get(off + k)
                if c2 is None:
                    k += 1; continue          # padding / uninitialised byte inside a coerced struct
                if k + c2[1] > nb: parts = None; break
                parts.append((k, c2[0], c2[1])); k += c2[1]
            if parts and any(kk < off + nb and kk + cc[1] > off and not (off <= kk and kk + cc[1] <= off + nb) for kk, cc in o.cells.items()): parts = None
            if parts:
                if all(isinstance(pv, int) and not isinstance(pv, bool) for (_, pv, _) in parts):
                    raw = 0
                    for (k, pv, pn) in parts: raw |= (pv & ((1 << (8 * pn)) - 1)) << (8 * k)
                    return sgn(raw, nb * 8)
                return Bundle(parts, nb)
        if c is not None and c[1] > nb and isinstance(c[0], int) and not isinstance(c[0], bool) and t.k == 'int':
            raw = c[0] & ((1 << (c[1] * 8)) - 1)
            return sgn(raw, nb * 8)
        if c is None or c[1] != nb:
            covering = [(k, cc) for k, cc in o.cells.items() if k < off + nb and k + cc[1] > off]
            if not covering:
                return s.uninit(st, o, off, nb, t)
            # piece of a wider cell (e.g. low half of an i64 holding a coerced struct)
            if len(covering) == 1:
                k, cc = covering[0]
                if isinstance(cc[0], Bundle):
                    for (bo, bv, bn) in cc[0].parts:
                        if k + bo == off and bn == nb: return s.retype(bv, t)
                if isinstance(cc[0], SV) and not z3.is_bool(cc[0].t) and t.k == 'int' and k <= off and off + nb <= k + cc[1] and cc[1] == 8 and nb == 4 and (off - k) in (0, 4):
                    # half of a 64-bit integer that packs two 32-bit fields (struct returned in a register)
                    v = cc[0]; m = 1 << 32
                    if off == k:
                        return SV(((v.t + (1 << 31)) % m) - (1 << 31), -(1 << 31), (1 << 31) - 1, taint=v.taint)
                    return SV(v.t / m, v.lo // m, v.hi // m, taint=v.taint)
                if isinstance(cc[0], SV) and not z3.is_bool(cc[0].t) and t.k == 'int' and off == k and nb in (1, 2) and cc[1] in (4, 8):
                    # low byte(s) of an integer that packs several fields (e.g. a {bool, int} struct returned in a register):
                    # two's complement low part of the mathematical value
                    v = cc[0]; m = 1 << (8 * nb); h = m >> 1
                    return SV(((v.t + h) % m) - h, -h, h - 1, taint=v.taint)
                if isinstance(cc[0], int) and not isinstance(cc[0], bool) and k <= off and off + nb <= k + cc[1]:
                    raw = cc[0] & ((1 << (cc[1] * 8)) - 1)
                    v = sgn(raw >> (8 * (off - k)), nb * 8)
                    return s.retype(v, t) if t.k in ('float', 'double') else v
        raise EngineError('unsupported partial/overlapping load at %s+%d width %d (cells %r)' % (o.name, off, nb, sorted(o.cells.items())[:6]))
    def retype(s, v, t):
        if t.k == 'float' and isinstance(v, int) and not isinstance(v, bool):
            return struct.unpack('<f', struct.pack('<i', v))[0]
        if t.k == 'double' and isinstance(v, int):
            return struct.unpack('<d', struct.pack('<q', v))[0]
        if t.k == 'int' and isinstance(v, float):
            if t.bits == 32: return struct.unpack('<i', struct.pack('<f', v))[0]
            if t.bits == 64: return struct.unpack('<q', struct.pack('<d', v))[0]
        if t.k == 'ptr' and isinstance(v, int):
            if v == 0: return NULL
            raise EngineError('integer reinterpreted as pointer')
        if t.k == 'int' and isinstance(v, Ptr) and t.bits == 64:
            return v    # pointer carried through an i64 (memcpy lowering)
        return v
    def uninit(s, st, o, off, nb, t):
        s.stats['uninit_reads'] = s.stats.get('uninit_reads', 0) + 1
        if t.k == 'int':
            lo, hi = rng(t.bits) if t.bits > 1 else (0, 1)
            if t.bits == 1: return s.newbool('uninit', taint=True)
            v = s.newsym(st, 'uninit', lo, hi); v.taint = True
            return v
        if t.k in ('float', 'double'):
            return s.fp_fresh(st, 32 if t.k == 'float' else 64, 'uninit', taint=True)
        if t.k == 'ptr':
            raise s.fail(st, 'uninit', 'load of uninitialised pointer from %s+%d' % (o.name, off))
        raise EngineError('uninit load of ' + repr(t))
    def store(s, st, p, v, ty):
        t = s.tc.resolve(ty)
        if t.k in ('struct', 'array'):
            if t.k == 'struct':
                for i, e in enumerate(t.els): s.store(st, Ptr(p.obj, s.addoff(p.off, s.tc.field_off(t, i)[0])), v[i], e)
            else:
                sz = s.tc.size_align(t.el)[0]
                for i in range(t.n): s.store(st, Ptr(p.obj, s.addoff(p.off, i * sz)), v[i], t.el)
            return
        nb = s.tc.size_align(t)[0]
        if t.k == 'float' and isinstance(v, float): v = f32(v)
        s.store_raw(st, p, v, nb)
    def store_raw(s, st, p, v, nb):
        if not isinstance(p, Ptr):
            if isinstance(p, tuple) and p[0] == 'pite':
                d = s.branch(st, p[1]); return s.store_raw(st, p[2] if d else p[3], v, nb)
            raise EngineError('store through non-pointer %r' % (p,))
        if p.obj == 0: raise s.fail(st, 'ub', 'null pointer dereference (store)')
        if p.obj in s.mod.oid_func: raise EngineError('store to function address')
        o = s.getobj(st, p.obj)
        offs = s.offsets(st, p.off, nb, o, True)
        if len(offs) == 1 and offs[0][1] is None:
            off = offs[0][0]
            if off < 0 or off + nb > o.size:
                raise s.fail(st, 'ub', 'out-of-bounds store: object %s size %d offset %d width %d' % (o.name, o.size, off, nb))
            s.check_ro(st, o, off, nb, p)
            o = s.getobj(st, p.obj, True)
            s.note_write(st, p.obj, off, nb)
            s.store1(o, off, v, nb)
            return
        for off, c in offs: s.check_ro(st, o, off, nb, p)
        try:
            newvals = [(off, s.ite(c, v, o.cells[off][0])) for off, c in offs]
        except NeedFork:
            if s.nofork: raise
            k = s.concretize(st, p.off)          # values that cannot be merged (pointers, mixed kinds): case split on the offset
            return s.store_raw(st, Ptr(p.obj, k), v, nb)
        o = s.getobj(st, p.obj, True)
        for off, nv in newvals:
            s.note_write(st, p.obj, off, nb)
            o.cells[off] = (nv, nb)
    def store1(s, o, off, v, nb):
        if isinstance(v, Bundle):
            s.clear_range(o, off, nb)
            for (k, pv, pn) in v.parts: o.cells[off + k] = (pv, pn)
            return
        c = o.cells.get(off)
        if c is None or c[1] != nb: s.clear_range(o, off, nb)
        elif nb > 1:
            # same-size overwrite; still clear smaller cells inside (none if layout consistent)
            pass
        o.cells[off] = (v, nb)
    def clear_range(s, o, off, nb):
        for k in [k for k, c in o.cells.items() if k < off + nb and k + c[1] > off]:
            v0, n0 = o.cells.pop(k)
            if k >= off and k + n0 <= off + nb: continue
            # partially overwritten cell: keep remaining bytes if concrete
            if isinstance(v0, int) and not isinstance(v0, bool):
                raw = v0 & ((1 << (8 * n0)) - 1)
                for j in range(n0):
                    if not (off <= k + j < off + nb): o.cells[k + j] = (sgn((raw >> (8 * j)) & 255, 8), 1)
            elif isinstance(v0, Bundle):
                for (bo, bv, bn) in v0.parts:
                    if not (k + bo < off + nb and k + bo + bn > off): o.cells[k + bo] = (bv, bn)
            # symbolic remainder: dropped (reads will see uninitialised = arbitrary, which over-approximates)
    def note_write(s, st, oid, off, nb):
        if st.tasks is not None and st.tasks.get('cur') is not None:
            k = st.tasks['cur']
            if oid <= st.tasks['mark']: st.tasks[k][1].add((oid, off, nb))      # objects created inside the task are task-local
    def note_read(s, st, oid, off, nb):
        if st.tasks is not None and st.tasks.get('cur') is not None:
            k = st.tasks['cur']
            if oid <= st.tasks['mark']: st.tasks[k][0].add((oid, off, nb))

    # ================================================================ value helpers
    def ite(s, c, a, b):
        """c: z3 Bool"""
        if a is b: return a
        if isinstance(a, int) and isinstance(b, int) and not isinstance(a, bool):
            if a == b: return a
            return SV(z3.If(c, IV(a), IV(b)), min(a, b), max(a, b))
        if isinstance(a, (int, SV)) and isinstance(b, (int, SV)):
            ab = isinstance(a, SV) and z3.is_bool(a.t); bb = isinstance(b, SV) and z3.is_bool(b.t)
            if ab or bb:
                if (ab or a in (0, 1)) and (bb or b in (0, 1)):
                    return SV(z3.If(c, zb(a), zb(b)), 0, 1, taint=tainted(a, b))
            alo, ahi = (a, a) if isinstance(a, int) else (a.lo, a.hi)
            blo, bhi = (b, b) if isinstance(b, int) else (b.lo, b.hi)
            if isinstance(a, SV) and isinstance(b, SV) and a.t.eq(b.t): return a
            return SV(z3.If(c, zt(a), zt(b)), min(alo, blo), max(ahi, bhi), taint=tainted(a, b), sz=szof(a) + szof(b) + 1)
        if isinstance(a, Ptr) and isinstance(b, Ptr):
            if a.obj == b.obj:
                if isinstance(a.off, int) and isinstance(b.off, int) and a.off == b.off: return a
                return Ptr(a.obj, s.ite(c, a.off, b.off))
            return ('pite', c, a, b)
        if isinstance(a, float) and isinstance(b, float):
            if a == b or (a != a and b != b): return a
        if isinstance(a, (float, SF)) and isinstance(b, (float, SF)):
            return s.fp_ite(c, a, b)
        if isinstance(a, list) and isinstance(b, list) and len(a) == len(b):
            return [s.ite(c, x, y) for x, y in zip(a, b)]
        if a is UNDEF: return b
        if b is UNDEF: return a
        if isinstance(a, tuple) and isinstance(b, tuple) and a == b: return a
        if isinstance(a, Bundle) and isinstance(b, Bundle) and len(a.parts) == len(b.parts) and all(x[0] == y[0] and x[2] == y[2] for x, y in zip(a.parts, b.parts)):
            return Bundle([(x[0], s.ite(c, x[1], y[1]), x[2]) for x, y in zip(a.parts, b.parts)], a.nb)
        raise NeedFork()
    def wrap(s, st, v, w, checked_by_trap=False):
        """bring a mathematical result into the signed range of iw (exact two's-complement wrap)"""
        lo, hi = rng(w)
        if isinstance(v, int): return sgn(v, w)
        if v.lo >= lo and v.hi <= hi: return v
        r, _ = s.query(st, z3.Or(v.t < lo, v.t > hi))
        if r == 'unsat':
            return SV(v.t, max(v.lo, lo), min(v.hi, hi), taint=v.taint, sz=v.sz)
        m = 1 << w
        return SV(((v.t + (1 << (w - 1))) % m) - (1 << (w - 1)), lo, hi, taint=v.taint)
    def tounsigned(s, v, w):
        """value of the iw bit pattern read as unsigned"""
        if isinstance(v, int): return v & ((1 << w) - 1)
        if v.lo >= 0: return v
        if v.hi < 0: return SV(v.t + (1 << w), v.lo + (1 << w), v.hi + (1 << w), taint=v.taint)
        return SV(z3.If(v.t < 0, v.t + (1 << w), v.t), 0, (1 << w) - 1, taint=v.taint)
    def fromunsigned(s, v, w):
        if isinstance(v, int): return sgn(v, w)
        half = 1 << (w - 1)
        if v.hi < half: return v
        if v.lo >= half: return SV(v.t - (1 << w), v.lo - (1 << w), v.hi - (1 << w), taint=v.taint)
        return SV(z3.If(v.t >= half, v.t - (1 << w), v.t), -half, half - 1, taint=v.taint)

    # ================================================================ control
    def get(s, fr, o):
        if o[0] == 'k': return o[1]
        try: return fr.regs[o[1]]
        except KeyError: raise EngineError('undefined register %s in %s' % (o[1], fr.fn.name))
    def goto(s, st, fr, target):
        if s.stops and len(st.frames) == s.stops[-1][0] and target == s.stops[-1][1] and fr.fn is s.stops[-1][2]:
            fr.prev = fr.blk.name; fr.blk = fr.fn.blocks[target]; fr.ip = 0
            raise StopReached()
        prev = fr.blk.name
        blk = fr.fn.blocks[target]
        if blk.nphi:
            regs = fr.regs
            vals = []
            for ins in blk.ins[:blk.nphi]:
                o = ins.x.get(prev)
                if o is None: raise EngineError('phi without incoming edge from %s: %s' % (prev, ins.txt))
                vals.append(o[1] if o[0] == 'k' else regs[o[1]])
            for ins, v in zip(blk.ins, vals): regs[ins.dst] = v
        fr.prev = prev; fr.blk = blk; fr.ip = blk.nphi
        lc = s.cfg['loop_cap']
        if lc:
            if fr.lc is None: fr.lc = {}
            n = fr.lc.get(target, 0) + 1; fr.lc[target] = n
            if n > lc: s.bound_hit(st, 'loop cap %d (iterations of one loop in one activation) at %s:%s' % (lc, fr.fn.name, target))
    def branch(s, st, cond):
        """decide a symbolic condition (z3 Bool): returns python bool, forking when both sides are feasible"""
        if z3.is_true(cond): return True
        if z3.is_false(cond): return False
        key = cond.get_id()
        kn = st.facts.get(key)
        if kn is not None:
            s.stats['fact_hits'] = s.stats.get('fact_hits', 0) + 1
            return kn[1]
        tf, ff, mt, mf = s.feasible2(st, cond)
        if tf is None or ff is None:
            s.stats['unknown_branch'] = s.stats.get('unknown_branch', 0) + 1
            tf = True if tf is None else tf; ff = True if ff is None else ff
        if tf and ff:
            if s.nofork: raise NeedFork()
            if s.cfg.get('probe'): raise Probe()
            if st.fidx < len(s.forced):
                # forced decision prefix (work splitting across processes): follow one side only
                d = s.forced[st.fidx]; st.fidx += 1
                st.facts[key] = (cond, bool(d))
                if d:
                    if mt is not None: st.model = mt
                    s.add_pc(st, cond)
                else:
                    if mf is not None: st.model = mf
                    elif s.model_says(st, cond) is not False: st.model = None
                    s.add_pc(st, z3.Not(cond))
                return bool(d)
            s.stats['forks'] += 1
            other = st.clone()
            other.facts[key] = (cond, False); st.facts[key] = (cond, True)
            other.decisions += 1; st.decisions += 1
            other.pc.append(z3.Not(cond)); other.model = mf if mf is not None else (None if s.model_says(st, cond) is not False else st.model)
            s.pending.append((other, False))
            if mt is not None: st.model = mt
            s.add_pc(st, cond)
            return True
        if tf: st.facts[key] = (cond, True); s.add_pc_implied(st, cond); return True
        if ff: st.facts[key] = (cond, False); s.add_pc_implied(st, z3.Not(cond)); return False
        raise PathEnd('infeasible')
    def add_pc_implied(s, st, c):
        st.pc.append(c)     # implied by the current constraints: recorded for merges/dumps, solver not burdened
    def exec(s, st):
        H = s.H; maxs = s.cfg['max_steps']; tb = s.cfg['time_budget']
        while True:
            fr = st.frames[-1]
            ins = fr.blk.ins[fr.ip]
            st.steps += 1
            if st.steps > maxs: s.bound_hit(st, 'step budget %d' % maxs)
            if not (st.steps & 1023) and tb and time.time() - s.t0 > tb: s.bound_hit(st, 'exploration budget (path cut)')
            H[ins.op](st, fr, ins)

    # ---- terminators
    def op_br(s, st, fr, ins): s.goto(st, fr, ins.x)
    def op_condbr(s, st, fr, ins):
        c = s.get(fr, ins.a[0])
        if isinstance(c, int): return s.goto(st, fr, ins.x[1 - c] if c in (0, 1) else ins.x[0 if c & 1 else 1])
        if c is UNDEF: raise EngineError('branch on undef')
        cond = zb(c)
        tb = fr.fn.blocks[ins.x[0]]; fb = fr.fn.blocks[ins.x[1]]
        if tb.trap is not None or fb.trap is not None:
            if tb.trap is not None and fb.trap is not None: raise EngineError('both targets trap')
            bad, good, trapblk, goodlbl = (cond, z3.Not(cond), tb, ins.x[1]) if tb.trap is not None else (z3.Not(cond), cond, fb, ins.x[0])
            kind, call = trapblk.trap
            if kind == 'ub' and c.taint == 'havoc':
                s.vc_count('ub-skipped-havoc', 'trivial')
                return s.goto(st, fr, goodlbl)
            if c.taint is True:
                s.check_vc(st, True, 'uninit', 'check depends on uninitialised memory')
            msg = s.trap_msg(st, fr, kind, call)
            if kind == 'bound':
                r, _ = s.query(st, bad)
                if r != 'unsat':
                    s.bound_hits[msg] = s.bound_hits.get(msg, 0) + 1
                    r2, m2 = s.query(st, good)
                    if r2 == 'unsat': raise PathEnd('bound')
                    s.add_pc(st, good)
                else: st.pc.append(good)
                return s.goto(st, fr, goodlbl)
            s.check_vc(st, bad, kind, msg, good)
            return s.goto(st, fr, goodlbl)
        if c.taint is True:
            s.check_vc(st, True, 'uninit', 'branch depends on uninitialised memory')
        if c.taint == 'clock':
            s.check_vc(st, True, 'nondeterminism', 'branch depends on the clock')
        # region merging
        if s.cfg['merge'] and s.nofork < s.cfg['max_merge_depth']:
            if fr.fn.mergeable is None: s.mod.analyse(fr.fn)
            J = fr.fn.mergeable.get(fr.blk.name)
            if J is not None:
                if s.try_merge(st, fr, ins, cond, J): return
        d = s.branch(st, cond)
        s.goto(st, fr, ins.x[0] if d else ins.x[1])
    def trap_msg(s, st, fr, kind, call):
        if kind == 'ub' and call.x == '@llvm.ubsantrap':
            k = call.a[0][1]
            return 'undefined behaviour: ' + UBSAN_KINDS.get(k & 255, str(k)) + ' in ' + fr.fn.name
        if call.a and call.a[0][0] == 'k' and isinstance(call.a[0][1], Ptr):
            return s.cstr(st, call.a[0][1]) + (' in ' + fr.fn.name if kind != 'bound' else '')
        return kind + ' in ' + fr.fn.name
    def op_switch(s, st, fr, ins):
        v = s.get(fr, ins.a[0]); default, cases = ins.x
        if isinstance(v, int):
            for cv, lb in cases:
                if cv == v: return s.goto(st, fr, lb)
            return s.goto(st, fr, default)
        for cv, lb in cases:
            if v.lo <= cv <= v.hi and s.branch(st, v.t == cv): return s.goto(st, fr, lb)
        s.goto(st, fr, default)
    def op_unreachable(s, st, fr, ins):
        raise s.fail(st, 'ub', 'reached unreachable in ' + fr.fn.name)
    def op_unsupported(s, st, fr, ins):
        raise EngineError('unsupported instruction (%s): %s' % (ins.x, ins.txt))
    def op_ret(s, st, fr, ins):
        v = s.get(fr, ins.a[0]) if ins.a else None
        s.pop_frame(st)
        if not st.frames: raise PathDone(v)
        if s.stops and len(st.frames) < s.stops[-1][0]: raise NeedFork()
        cfr = st.frames[-1]; cins = cfr.blk.ins[cfr.ip]
        if cins.dst is not None: cfr.regs[cins.dst] = v
        if cins.op == 'invoke': s.goto(st, cfr, cins.trap[0])
        else: cfr.ip += 1
    def pop_frame(s, st):
        fr = st.frames.pop()
        for oid in fr.allocas: st.objs.pop(oid, None)

    # ---- calls
    def op_call(s, st, fr, ins):
        cal = ins.x
        if not isinstance(cal, str):
            fp = s.get(fr, cal)
            if isinstance(fp, tuple) and fp[0] == 'pite':
                d = s.branch(st, fp[1]); fp = fp[2] if d else fp[3]
            if not isinstance(fp, Ptr) or fp.obj not in s.mod.oid_func:
                if isinstance(fp, Ptr) and fp.obj == 0: raise s.fail(st, 'ub', 'call through null function pointer')
                raise EngineError('indirect call through %r' % (fp,))
            cal = s.mod.oid_func[fp.obj]
        args = [s.get(fr, a) for a in ins.a]
        f = s.mod.funcs.get(cal)
        if f is None:
            b = s.builtin_for(cal)
            try:
                r = b(s, st, args, ins)
            except s.Redirect:
                return
            if ins.dst is not None: fr.regs[ins.dst] = r
            if ins.op == 'invoke': s.goto(st, fr, ins.trap[0])
            else: fr.ip += 1
            return
        if len(st.frames) > 200: raise EngineError('call depth > 200 (recursion?)')
        nf = Frame(f)
        for (pn, pt), a in zip(f.params, args): nf.regs[pn] = a
        nf.blk = f.blocks[f.order[0]]; nf.ip = 0
        st.frames.append(nf)
        s.funcs_run.add(cal)
    op_invoke = op_call
    def builtin_for(s, name):
        b = s._bcache.get(name)
        if b is None:
            b = s.builtins.get(name)
            if b is None:
                for pre, fn in s.builtin_prefixes:
                    if name.startswith(pre): b = fn; break
            if b is None:
                def missing(e, st, args, ins, name=name): raise EngineError('call to undefined external function ' + name)
                b = missing
            s._bcache[name] = b
        return b

    # ---- exceptions
    def throw(s, st, ptr, tinfo):
        st.exc = (ptr, tinfo)
        s.unwind(st, first=True)
    def unwind(s, st, first=False):
        """st.exc is set; the top frame's current instruction is the call that raised (or frame already popped for resume)"""
        while st.frames:
            fr = st.frames[-1]
            ins = fr.blk.ins[fr.ip]
            if s.stops and len(st.frames) < s.stops[-1][0]: raise NeedFork()
            if ins.op == 'invoke':
                lp_blk = fr.fn.blocks[ins.trap[1]]
                lp = lp_blk.ins[lp_blk.nphi]
                if lp.op != 'landingpad': raise EngineError('unwind target without landingpad')
                cleanup, clauses = lp.x
                sel = s.match_clauses(st, clauses)
                if cleanup or sel != 0:
                    s.goto(st, fr, ins.trap[1])
                    fr.regs[lp.dst] = [st.exc[0], sel]
                    fr.ip += 1
                    return
            s.pop_frame(st)
        # left the harness
        ptr, ti = st.exc
        msg = s.exc_message(st, ptr, ti)
        s.check_vc(st, True, 'exception-escape', 'exception escaped the harness: ' + msg)
    def exc_message(s, st, ptr, ti):
        name = s.mod.oid_name.get(ti.obj, '?') if isinstance(ti, Ptr) else '?'
        txt = ''
        try:
            if 'runtime_error' in name or 'logic_error' in name or 'out_of_range' in name or 'invalid_argument' in name:
                o = s.getobj(st, ptr.obj); c = o.cells.get(ptr.off + 8)
                if c: txt = ': ' + s.cstr(st, c[0])
        except Exception: pass
        return name + txt
    def typeinfo_bases(s, st, ti):
        out = [ti.obj]; cur = ti
        for _ in range(8):
            o = s.getobj(st, cur.obj)
            c = o.cells.get(16)
            if c is None or not isinstance(c[0], Ptr) or c[0].obj == 0: break
            cur = c[0]; out.append(cur.obj)
        return out
    def match_clauses(s, st, clauses):
        if not clauses: return 0
        bases = s.typeinfo_bases(st, st.exc[1])
        for cl in clauses:
            if cl is NULL or (isinstance(cl, Ptr) and cl.obj == 0): return 1_000_000   # catch (...)
            if cl.obj in bases: return cl.obj
        return 0
    def op_landingpad(s, st, fr, ins):
        raise EngineError('landingpad executed without unwinding')
    def op_resume(s, st, fr, ins):
        v = s.get(fr, ins.a[0])
        if st.exc is None: raise EngineError('resume without exception in flight')
        s.pop_frame(st)
        s.unwind(st)

    # ================================================================ region merging
    def try_merge(s, st, fr, ins, cond, J):
        tf, ff, mt, mf = s.feasible2(st, cond)
        if tf is None or ff is None: return False
        if not tf or not ff:
            if not tf and not ff: raise PathEnd('infeasible')
            s.add_pc_implied(st, cond if tf else z3.Not(cond))
            s.goto(st, fr, ins.x[0] if tf else ins.x[1])
            return True
        depth = len(st.frames)
        snap = s.snapshot()
        sides = []
        nobj = st.next_obj
        ok = True
        for lbl, cc, mdl in ((ins.x[0], cond, mt), (ins.x[1], z3.Not(cond), mf)):
            st2 = st.clone(); st2.next_obj = nobj
            if mdl is not None: st2.model = mdl
            elif s.model_says(st, cc) is not True: st2.model = None
            s.activate(st)
            s.solver.push(); s.scope_depth += 1
            prev_active = s.active
            st2.pc.append(cc); s.solver.add(cc); s.active = st2
            s.nofork += 1; s.stops.append((depth, J, fr.fn, st2.steps + s.cfg['merge_budget']))
            steps0 = st2.steps
            res = None
            try:
                fr2 = st2.frames[-1]
                s.goto(st2, fr2, lbl)
                s.exec_side(st2)
            except StopReached:
                res = st2
            except PathEnd as e:
                res = 'dead' if e.why in ('assume', 'infeasible', 'violation', 'unknown') else None
                if res is None: ok = False
            except (NeedFork, PathDone):
                ok = False
            finally:
                s.nofork -= 1; s.stops.pop()
                s.solver.pop(); s.scope_depth -= 1; s.active = prev_active
            if not ok: break
            if res != 'dead':
                nobj = max(nobj, st2.next_obj)
                sides.append((cc, st2))
            else:
                sides.append((cc, None))
        if not ok:
            s.restore(snap); s.stats['merge_fail'] += 1
            return False
        live = [(c, x) for c, x in sides if x is not None]
        if not live:
            raise PathEnd('assume')
        if len(live) == 1:
            c1, s1 = live[0]
            s.adopt(st, s1, depth)
            fr = st.frames[-1]
            s.enter_join(st, fr, J)
            return True
        (c1, s1), (c2, s2) = live
        try:
            f1 = s1.frames[-1]; f2 = s2.frames[-1]
            # phis of J are evaluated per side
            jb = f1.fn.blocks[J]
            for sx, fx in ((s1, f1), (s2, f2)):
                vals = []
                for pi in jb.ins[:jb.nphi]:
                    o = pi.x.get(fx.prev)
                    if o is None: raise EngineError('phi without incoming edge from %s' % fx.prev)
                    vals.append(o[1] if o[0] == 'k' else fx.regs[o[1]])
                for pi, v in zip(jb.ins, vals): fx.regs[pi.dst] = v
            regs = {}
            r1 = f1.regs; r2 = f2.regs
            for k, v1 in r1.items():
                v2 = r2.get(k, s)
                if v2 is s: regs[k] = v1
                elif v1 is v2: regs[k] = v1
                else: regs[k] = s.ite(c1, v1, v2)
            for k, v2 in r2.items():
                if k not in r1: regs[k] = v2
            objs = {}
            o1s = s1.objs; o2s = s2.objs
            for oid, o1 in o1s.items():
                o2 = o2s.get(oid)
                if o2 is None or o1 is o2: objs[oid] = o1; continue
                if o1.cells == o2.cells and o1.ro is o2.ro: objs[oid] = o1; continue
                o = Obj(o1.size, o1.name, st.sid, o1.kind); o.bytes = o1.bytes
                if o1.ro != o2.ro: raise NeedFork()
                o.ro = o1.ro
                ce = o.cells; c2s = o2.cells
                for off, a in o1.cells.items():
                    b = c2s.get(off)
                    if b is None:
                        ce[off] = a; continue   # initialised on one side only: the other side's (uninitialised) content is a don't-care
                    if a is b: ce[off] = a; continue
                    if a[1] != b[1]: raise NeedFork()
                    ce[off] = (s.ite(c1, a[0], b[0]), a[1])
                for off, b in c2s.items():
                    if off not in ce and off not in o1.cells: ce[off] = b
                objs[oid] = o
            for oid, o2 in o2s.items():
                if oid not in o1s: objs[oid] = o2
            if f1.allocas != f2.allocas:
                allocas = list(dict.fromkeys(f1.allocas + f2.allocas))
            else: allocas = f1.allocas
            if s1.exc is not s2.exc or len(s1.caught) != len(s2.caught): raise NeedFork()
            if len(s1.draws) != len(s2.draws) or any(a[1] is not b[1] for a, b in zip(s1.draws, s2.draws)): raise NeedFork()
            if len(s1.observes) != len(s2.observes): raise NeedFork()
            if s1.nchoice != s2.nchoice: raise NeedFork()
            obs = [a if a is b else s.ite(c1, a, b) for a, b in zip(s1.observes, s2.observes)]
        except NeedFork:
            s.restore(snap); s.stats['merge_fail'] += 1
            return False
        n0 = len(st.pc)
        e1 = s1.pc[n0 + 1:]; e2 = s2.pc[n0 + 1:]
        fr = st.frames[-1]
        fr.regs = regs; fr.allocas = allocas; fr.prev = None
        st.objs = objs
        for o in objs.values():
            pass
        # objects created by the sides are owned by the side states; treat every object as shared from now on
        st.sid = next(_sid)
        st.next_obj = max(s1.next_obj, s2.next_obj)
        st.steps = max(s1.steps, s2.steps)
        st.observes = obs; st.draws = s1.draws; st.notes = s1.notes; st.havoc_used = s1.havoc_used or s2.havoc_used
        st.tasks = s1.tasks if s1.tasks is not None else s2.tasks
        if s1.tasks is not None and s2.tasks is not None:
            for k in s2.tasks:
                if not isinstance(s2.tasks[k], tuple): continue
                if k in st.tasks: st.tasks[k][0].update(s2.tasks[k][0]); st.tasks[k][1].update(s2.tasks[k][1])
                else: st.tasks[k] = s2.tasks[k]
        for k, v in s2.loopcnt.items():
            if s1.loopcnt.get(k, 0) < v: s1.loopcnt[k] = v
        st.loopcnt = s1.loopcnt
        if e1 or e2:
            extra = z3.Or(z3.And(c1, *e1) if e1 else c1, z3.And(c2, *e2) if e2 else c2)
            s.activate(st)
            s.add_pc(st, extra)
        st.model = None
        s.stats['merges'] += 1
        fr.blk = fr.fn.blocks[J]; fr.ip = fr.blk.nphi
        return True
    def enter_join(s, st, fr, J):
        # fr.prev is set by the side; evaluate phis of J normally
        prev = fr.prev
        blk = fr.fn.blocks[J]
        vals = []
        for pi in blk.ins[:blk.nphi]:
            o = pi.x.get(prev)
            if o is None: raise EngineError('phi without incoming edge from %s' % prev)
            vals.append(o[1] if o[0] == 'k' else fr.regs[o[1]])
        for pi, v in zip(blk.ins, vals): fr.regs[pi.dst] = v
        fr.blk = blk; fr.ip = blk.nphi
    def adopt(s, st, s1, depth):
        n0 = len(st.pc)
        extra = s1.pc[n0:]
        st.frames = s1.frames; st.objs = s1.objs; st.sid = s1.sid; st.next_obj = s1.next_obj; st.steps = s1.steps
        st.observes = s1.observes; st.draws = s1.draws; st.notes = s1.notes; st.tasks = s1.tasks; st.exc = s1.exc; st.caught = s1.caught
        st.nchoice = s1.nchoice; st.loopcnt = s1.loopcnt; st.havoc_used = s1.havoc_used
        s.activate(st)
        for e in extra: s.add_pc(st, e)
        st.model = s1.model
    def exec_side(s, st):
        H = s.H; lim = s.stops[-1][3]; tb = s.cfg['time_budget']
        while True:
            fr = st.frames[-1]
            ins = fr.blk.ins[fr.ip]
            st.steps += 1
            if st.steps > lim: raise NeedFork()
            if not (st.steps & 255) and tb and time.time() - s.t0 > tb: s.bound_hit(st, 'exploration budget (path cut)')
            H[ins.op](st, fr, ins)
    def snapshot(s):
        return (dict((k, dict(v)) for k, v in s.vc.items()), len(s.violations), dict(s.viol_keys), dict(s.covers), dict(s.bound_hits), len(s.unknown_vcs), len(s.smt_dump))
    def restore(s, snap):
        s.vc = snap[0]; del s.violations[snap[1]:]; s.viol_keys = snap[2]; s.covers = snap[3]; s.bound_hits = snap[4]; del s.unknown_vcs[snap[5]:]; del s.smt_dump[snap[6]:]

    # ================================================================ top level
    def run(s, entry, choices=(), forced=()):
        """explore every path of `entry` under the given choice prefix.  Raises NeedChoice if the prefix is too short."""
        s.choices = list(choices); s.forced = tuple(forced)
        s.pending = []; s.stops = []
        f = s.mod.funcs.get(entry)
        if f is None: raise EngineError('no function ' + entry)
        st0 = State()
        if s.cfg.get('scan_globals'):
            # hidden state: a writable global defined by the translation units under test would make results depend on run order
            bad = [n for n, g in s.mod.globals.items() if g.alias is None and not g.const and g.init is not None
                   and '__verif' not in n and not n.startswith('@_ZSt4c') and not n.startswith('@_ZTV') and not n.startswith('@_ZGV')]
            if bad:
                s.vc_count('global-state', 'violated')
                s.violations.append(dict(kind='global-state', msg='writable global defined in the library: ' + ', '.join(bad[:5]), func='@<module>', block='', stack=[], choices=list(choices), draws=[], notes=[], observes=0))
            else: s.vc_count('global-state', 'proved')
        fr = Frame(f); fr.blk = f.blocks[f.order[0]]; fr.ip = 0
        st0.frames.append(fr); s.funcs_run.add(entry)
        s.pending.append((st0, True))
        tb = s.cfg['time_budget']; mp = s.cfg['max_paths']
        npick = 0
        while s.pending:
            # depth first; once 40 % of the time budget is spent every other pick takes the OLDEST pending state instead, so that
            # a job that will not finish still visits the sides of its early forks (exploration order only - no effect on verdicts)
            npick += 1
            if tb and (npick & 1) and len(s.pending) > 1 and time.time() - s.t0 > 0.4 * tb:
                st, _ = s.pending.pop(0)
            else:
                st, _ = s.pending.pop()
            if (tb and time.time() - s.t0 > tb) or (mp and s.stats['paths'] >= mp):
                s.bound_hits['exploration budget (paths not explored)'] = s.bound_hits.get('exploration budget (paths not explored)', 0) + 1 + len(s.pending)
                s.pending = []
                break
            s.activate(st)
            try:
                s.exec(st)
            except PathDone:
                if st.fidx < len(s.forced) and any(s.forced[st.fidx:]):
                    s.stats['dup_paths'] = s.stats.get('dup_paths', 0) + 1; continue   # counted by the canonical sibling job
                s.stats['paths'] += 1; s.stats['paths_done'] += 1
                s.path_finished(st)
            except PathEnd as e:
                if st.fidx < len(s.forced) and any(s.forced[st.fidx:]):
                    s.stats['dup_paths'] = s.stats.get('dup_paths', 0) + 1; continue
                s.stats['paths'] += 1
                if e.why == 'bound': s.stats['paths_bound'] += 1
                else: s.stats['paths_assume'] += 1
            s.stats['instrs'] += st.steps - getattr(st, '_counted', 0)
        return s.result()
    def path_finished(s, st):
        if len(s.samples) < 3:
            m = st.model if st.model is not None else s.any_model(st)
            s.samples.append(dict(choices=list(s.choices[:st.nchoice]), draws=s.model_draws(st, m), pc_size=len(st.pc), steps=st.steps, havoc=st.havoc_used,
                                  observes=[s.model_obs(m, o) for o in st.observes]))
    def model_obs(s, m, o):
        if isinstance(o, (int, float)): return o
        if m is None: return None
        try:
            if isinstance(o, SV): return m.eval(zt(o), model_completion=True).as_long()
            if isinstance(o, SF): return s.fp_model_value(m.eval(o.t, model_completion=True)) if o.t is not None else None
        except Exception: return None
    def result(s):
        return dict(stats=s.stats, vc=s.vc, violations=s.violations, viol_counts={'|'.join(map(str, k)): v for k, v in s.viol_keys.items()},
                    covers=s.covers, bound_hits=s.bound_hits, funcs=sorted(s.funcs_run), samples=s.samples, unknown_vcs=s.unknown_vcs[:20],
                    smt_dump=s.smt_dump, wall=time.time() - s.t0)

from . import ops as _ops
_ops.install(Engine)
