# irsx value domain: concrete python ints (signed canonical) | SV (z3 Int/Bool term + interval) | floats | SF | Ptr | lists | Bundle
import z3, struct, math
from .ir import Ptr, NULL, UNDEF, sgn

class SV:
    """symbolic integer (z3 Int term, signed canonical value of an iN) or boolean (z3 Bool, w == 1)"""
    __slots__ = ('t', 'lo', 'hi', 'b', 'taint', 'sz', 'al')
    def __init__(s, t, lo, hi, b=None, taint=False, sz=1, al=0):
        s.t = t; s.lo = lo; s.hi = hi; s.b = b; s.taint = taint; s.sz = sz; s.al = al   # al: number of low bits known to be zero
    def __repr__(s): return 'SV(%s,[%s,%s])' % (str(s.t)[:80], s.lo, s.hi)

class SF:
    """symbolic float. mode-specific payload: exact: z3 FP term in .t ; real: (z3 Real term .t, .err bound info) ; havoc: None"""
    __slots__ = ('t', 'bits', 'lo', 'hi', 'exact', 'taint', 'ik')
    def __init__(s, t, bits, lo=None, hi=None, exact=False, taint=False, ik=None):
        s.t = t; s.bits = bits; s.lo = lo; s.hi = hi; s.exact = exact; s.taint = taint; s.ik = ik   # ik: z3 Int term when the value is a known integer
    def __repr__(s): return 'SF%d(%s)' % (s.bits, str(s.t)[:60])

class Bundle:
    """bytes of several cells loaded as one wide integer (struct passed coerced as i64 etc.)"""
    __slots__ = ('parts', 'nb')
    def __init__(s, parts, nb): s.parts = parts; s.nb = nb   # parts: list of (byteoff, value, nbytes, kind)
    def __repr__(s): return 'Bundle(%r)' % (s.parts,)

_ival = {}
def IV(v):
    r = _ival.get(v)
    if r is None:
        r = z3.IntVal(v)
        if -1024 <= v <= 1024: _ival[v] = r
    return r

TRUE = z3.BoolVal(True); FALSE = z3.BoolVal(False)

def zt(v):
    """z3 Int term of an int-like value"""
    if isinstance(v, int): return IV(v)
    if isinstance(v, SV):
        if z3.is_bool(v.t): return z3.If(v.t, IV(1), IV(0))
        return v.t
    raise TypeError('zt of %r' % (v,))

def zb(v):
    """z3 Bool term of an i1-like value"""
    if isinstance(v, int): return TRUE if v else FALSE
    if isinstance(v, SV):
        if z3.is_bool(v.t): return v.t
        if v.b is not None: return v.b
        return v.t != 0
    raise TypeError('zb of %r' % (v,))

def rng(w): return -(1 << (w - 1)), (1 << (w - 1)) - 1

def f32(x):
    """round a python float to binary32"""
    try: return struct.unpack('f', struct.pack('f', x))[0]
    except OverflowError: return math.copysign(math.inf, x)

def tainted(*vs):
    """taint of a value computed from vs: True (uninitialised memory) dominates 'havoc' / 'clock' (over-approximated inputs)"""
    r = False
    for v in vs:
        if isinstance(v, (SV, SF)) and v.taint:
            if v.taint is True: return True
            r = v.taint
    return r

def szof(v): return v.sz if isinstance(v, SV) else 0
SIMP_AT = 12
def compact(v):
    """keep arithmetic terms in z3's sum-of-monomials normal form so that long chains (x - a - b - ...) stay small"""
    if v.sz > SIMP_AT:
        v.t = z3.simplify(v.t, som=True); v.sz = 4
    return v
