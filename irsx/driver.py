# irsx driver: compile harnesses from /repo's current tree, explore (process pool over choice prefixes), replay natively,
# cross-check with cvc5, write evidence, print VIOLATION / KNOWN-FINDING lines.
import os, sys, json, time, subprocess, tempfile, shutil, re, random, traceback, hashlib
from concurrent.futures import ProcessPoolExecutor, wait, FIRST_COMPLETED

VERIF = os.path.dirname(os.path.dirname(os.path.abspath(__file__)))
REPO = os.environ.get('VERIF_REPO', '/repo')
SAN = 'signed-integer-overflow,integer-divide-by-zero,shift,bounds,float-cast-overflow,bool,enum,return,unreachable'   # float division by zero is IEEE-defined (inf/nan), not trapped

def sh(cmd, **kw):
    return subprocess.run(cmd, stdout=subprocess.PIPE, stderr=subprocess.PIPE, text=True, **kw)

def compile_ir(h, work):
    """harness spec -> .ll path (clang -O0 + sroa/simplifycfg), regenerated from the current /repo tree"""
    base = os.path.join(work, h['name'])
    defs = ['-D%s=%s' % (k, v) if v is not None else '-D' + k for k, v in h.get('defines', {}).items()]
    cmd = ['clang++-14', '-std=c++17', '-nostdinc++', '-nostdinc', '-I', os.path.join(VERIF, 'stubs/include'), '-I', os.path.join(REPO, 'src'),
           '-I', os.path.join(VERIF, 'harness'), '-DCOLOQUINTE_VERIF', '-O0', '-Xclang', '-disable-O0-optnone', '-fsanitize=' + SAN,
           '-fsanitize-trap=all', '-fno-threadsafe-statics', '-Wno-everything', '-S', '-emit-llvm', os.path.join(VERIF, 'harness', h['src']), '-o', base + '.0.ll'] + defs
    r = sh(cmd)
    if r.returncode != 0: raise RuntimeError('clang failed for %s:\n%s' % (h['name'], r.stderr[-3000:]))
    extra = []
    for i, src in enumerate(h.get('ir_srcs', [])):
        o = base + '.x%d.ll' % i
        c2 = cmd[:cmd.index('-emit-llvm') + 1] + [os.path.join(REPO, 'src', src), '-o', o] + defs
        r = sh(c2)
        if r.returncode != 0: raise RuntimeError('clang failed for %s:\n%s' % (src, r.stderr[-3000:]))
        extra.append(o)
    if extra:
        r = sh(['llvm-link-14', '-S', base + '.0.ll'] + extra + ['-o', base + '.l.ll'])
        if r.returncode != 0: raise RuntimeError('llvm-link failed for %s:\n%s' % (h['name'], r.stderr[-3000:]))
        os.replace(base + '.l.ll', base + '.0.ll')
        for o in extra: os.unlink(o)
    r = sh(['opt-14', '-S', '-passes=' + os.environ.get('VERIF_OPT_PASSES', 'mem2reg,simplifycfg'), '-phi-node-folding-threshold=4', base + '.0.ll', '-o', base + '.ll'])
    if r.returncode != 0: raise RuntimeError('opt failed for %s:\n%s' % (h['name'], r.stderr[-2000:]))
    os.unlink(base + '.0.ll')
    return base + '.ll'

def compile_obj(src, work, extra=()):
    """one repository source -> object (ASan/UBSan), cached per run"""
    out = os.path.join(work, 'lib_' + src.replace('/', '_') + '.o')
    if os.path.exists(out): return out
    tmp = out + '.%d.tmp' % os.getpid()
    cmd = ['g++', '-std=c++17', '-O0', '-fsanitize=address,undefined', '-fno-sanitize-recover=all', '-D_GLIBCXX_ASSERTIONS', '-DCOLOQUINTE_VERIF',
           '-I', os.path.join(REPO, 'src'), '-I', os.path.join(REPO, 'thirdparty'), '-w', '-c', os.path.join(REPO, 'src', src), '-o', tmp] + list(extra)
    r = sh(cmd)
    if r.returncode != 0: raise RuntimeError('native build failed for %s:\n%s' % (src, r.stderr[-3000:]))
    os.replace(tmp, out)
    return out

def compile_native(h, work, objs=()):
    out = os.path.join(work, h['name'] + '.native')
    defs = ['-D%s=%s' % (k, v) if v is not None else '-D' + k for k, v in h.get('defines', {}).items()]
    cmd = ['g++', '-std=c++17', '-O0', '-g1', '-fsanitize=address,undefined', '-fno-sanitize-recover=all', '-D_GLIBCXX_ASSERTIONS', '-DCOLOQUINTE_VERIF', '-DVERIF_NATIVE',
           '-I', os.path.join(REPO, 'src'), '-I', os.path.join(VERIF, 'harness'), '-I', os.path.join(REPO, 'thirdparty'), '-w',
           os.path.join(VERIF, 'harness', h['src']), os.path.join(VERIF, 'harness', 'native_rt.cpp'), '-o', out] + defs + list(objs) + h.get('native_flags', [])
    r = sh(cmd)
    if r.returncode != 0: raise RuntimeError('native build failed for %s:\n%s' % (h['name'], r.stderr[-3000:]))
    return out

_modcache = {}
def run_job(ll, cfg, prefix, forced=(), probe=False):
    try:
        sys.setrecursionlimit(10000)
        from .ir import Module
        from .engine import Engine, NeedChoice, EngineError, Probe
        if probe: cfg = dict(cfg, probe=True)
        dl = cfg.get('deadline')
        if dl:
            left = dl - time.time()
            if left < 5: return ('skipped', (prefix, forced), None)
            cfg = dict(cfg, time_budget=min(cfg.get('time_budget') or left, left))
        mod = _modcache.get(ll)
        if mod is None:
            mod = Module(ll); _modcache[ll] = mod
        e = Engine(mod, cfg)
        try:
            r = e.run('@harness', prefix, forced)
            return ('ok', (prefix, forced), r)
        except NeedChoice as n:
            return ('choice', (prefix, forced), n.n)
        except Probe:
            return ('probe', (prefix, forced), None)
        except EngineError as x:
            return ('error', (prefix, forced), 'engine error: %s' % x)
    except Exception:
        return ('error', (prefix, forced), traceback.format_exc()[-3000:])

def native_string(choices, draws):
    def fmt(d):
        v = d['v']
        if d['kind'] in ('i', 'l'): return str(int(v))
        return repr(float(v))
    return 'c ' + ' '.join(str(c) for c in choices) + ' d ' + ' '.join(fmt(d) for d in draws)

def run_native(binary, replay_path, timeout=60):
    env = dict(os.environ, ASAN_OPTIONS='detect_leaks=0:abort_on_error=0', UBSAN_OPTIONS='print_stacktrace=0:halt_on_error=1')
    try:
        r = subprocess.run([binary, replay_path], stdout=subprocess.PIPE, stderr=subprocess.PIPE, text=True, timeout=timeout, env=env)
        return r.returncode, r.stdout, r.stderr
    except subprocess.TimeoutExpired:
        return -999, '', 'timeout'

def confirms(kind, msg, rc, out, err):
    """does the native run reproduce a violation of this kind?"""
    if rc == 4 or rc == 6 or rc == 9: return False
    if kind == 'assert': return rc == 3 and ('ASSERT-FAIL ' + msg) in out
    if kind == 'exception-escape': return rc == 5
    if kind == 'protect': return rc == 7
    if rc in (0, 3, 4, 5, 6, 7, 9, -999): return False
    if kind == 'repo-assert': return 'Assertion' in err and 'failed' in err
    if kind == 'contract': return ('Assertion' in err) or ('AddressSanitizer' in err) or ('runtime error' in err)
    if kind in ('ub', 'uninit'): return ('runtime error' in err) or ('AddressSanitizer' in err) or rc < 0
    if kind in ('abort', 'terminate'): return True
    return False

def cvc5_check(smt, timeout=60):
    with tempfile.NamedTemporaryFile('w', suffix='.smt2', delete=False) as f:
        f.write('(set-logic ALL)\n' + smt); p = f.name
    try:
        r = subprocess.run(['cvc5', '--lang', 'smt2', '--tlimit=%d' % (timeout * 1000), p], stdout=subprocess.PIPE, stderr=subprocess.PIPE, text=True, timeout=timeout + 10)
        o = r.stdout.strip().split('\n')[0] if r.stdout.strip() else 'error'
    except subprocess.TimeoutExpired:
        o = 'timeout'
    os.unlink(p)
    return o

def merge_counts(dst, src):
    for k, v in src.items():
        if isinstance(v, dict): merge_counts(dst.setdefault(k, {}), v)
        elif isinstance(v, (int, float)): dst[k] = dst.get(k, 0) + v

def load_known():
    p = os.path.join(VERIF, 'known_findings.json')
    if not os.path.exists(p): return []
    return json.load(open(p)).get('findings', [])

def match_known(known, prop, hname, v):
    for k in known:
        if k.get('property') != prop or k.get('status') != 'finding': continue
        m = k.get('match', {})
        if m.get('harness') and m['harness'] != hname: continue
        if m.get('kind') and m['kind'] != v['kind']: continue
        if m.get('msg') and m['msg'] not in v['msg']: continue
        if m.get('func') and m['func'] not in v['func']: continue
        return k
    return None

def run_property(prop, harnesses, tier, seed, jobs, text, assumptions, design_ref, wall_budget=None):
    t0 = time.time()
    rnd = random.Random(seed)
    work = tempfile.mkdtemp(prefix='irsx_%s_' % prop)
    known = load_known()
    lines = []; exit_code = 0
    agg = dict(stats={}, vc={}, covers={}, bound_hits={}, funcs=set(), harnesses=[], unconfirmed=[], confirmed=[], known=[], errors=[], samples=[],
               cvc5=dict(checked=0, agree=0, disagree=0, inconclusive=0), diff=dict(runs=0, agree=0, disagree=0), unknown_vcs=[], jobs=0)
    try:
        hs = [h for h in harnesses if tier in h.get('tiers', ('quick', 'thorough'))]
        # tier-specific overrides
        hs2 = []
        for h in hs:
            h = dict(h)
            ov = h.get(tier, {})
            h['defines'] = dict(h.get('defines', {}), **ov.get('defines', {}))
            h['cfg'] = dict(h.get('cfg', {}), **ov.get('cfg', {}))
            hs2.append(h)
        hs = hs2
        with ProcessPoolExecutor(max_workers=jobs) as pool:
            # compile IR + native in parallel
            futs_ir = {h['name']: pool.submit(compile_ir, h, work) for h in hs}
            allsrc = sorted(set(x for h in hs for x in h.get('native_srcs', [])))
            libflags = sorted(set(f for h in hs for f in h.get('lib_flags', [])))   # e.g. -fsanitize=float-cast-overflow, which the IR traps but -fsanitize=undefined leaves out
            futs_obj = {x: pool.submit(compile_obj, x, work, libflags) for x in allsrc}
            futs_nat = {}
            def native_of(h):
                if h['name'] not in futs_nat:
                    try:
                        objs = [futs_obj[x].result() for x in h.get('native_srcs', [])]
                        futs_nat[h['name']] = pool.submit(compile_native, h, work, objs)
                    except Exception as x:
                        futs_nat[h['name']] = x
                return futs_nat[h['name']]
            pending = {}
            # fair scheduling: one queue of not-yet-submitted jobs per harness, served round-robin, so that a wall budget is
            # shared by the harnesses instead of being consumed by the first one
            from collections import deque
            queues = {}; rr = []
            def enqueue(hn, args):
                if hn not in queues: queues[hn] = deque(); rr.append(hn)
                queues[hn].append(args)
            def pump():
                while len(pending) < 2 * jobs:
                    live = [hn for hn in rr if queues[hn]]
                    if not live: break
                    # the harness with the fewest jobs in flight goes first
                    infl = {hn: 0 for hn in live}
                    for hn2 in pending.values():
                        if hn2 in infl: infl[hn2] += 1
                    hn = min(live, key=lambda x: infl[x])
                    f = pool.submit(run_job, *queues[hn].popleft()); pending[f] = hn
            per_h = {}
            import threading
            for h in hs:
                if h.get('native', True): threading.Thread(target=native_of, args=(h,), daemon=True).start()
            for h in hs:
                try:
                    ll = futs_ir[h['name']].result()
                except Exception as x:
                    agg['errors'].append('%s: %s' % (h['name'], x)); continue
                cfg = dict(h['cfg']); cfg.setdefault('dump_every', 50 if tier == 'quick' else 10)
                cfg.setdefault('time_budget', 150 if tier == 'quick' else 1500)
                if wall_budget: cfg['deadline'] = t0 + wall_budget
                per_h[h['name']] = dict(h=h, ll=ll, cfg=cfg, results=[], t0=time.time())
                enqueue(h['name'], (ll, cfg, (), (), bool(h.get('split'))))
            pump()
            tlast = time.time()
            while pending:
                done, _ = wait(list(pending), return_when=FIRST_COMPLETED, timeout=30)
                if os.environ.get('VERIF_PROGRESS') and time.time() - tlast > 30:
                    tlast = time.time()
                    print('[progress %ds] jobs done %d pending %d' % (time.time() - t0, agg['jobs'], len(pending)), file=sys.stderr, flush=True)
                for f in done:
                    hn = pending.pop(f); ph = per_h[hn]
                    kind, (prefix, forced), payload = f.result()
                    agg['jobs'] += 1
                    split = ph['h'].get('split', 0)
                    if kind == 'choice':
                        for k in range(payload):
                            enqueue(hn, (ph['ll'], ph['cfg'], tuple(prefix) + (k,), forced, bool(split) and not forced))
                    elif kind == 'probe':
                        import itertools
                        for fv in itertools.product((1, 0), repeat=split):
                            enqueue(hn, (ph['ll'], ph['cfg'], tuple(prefix), fv, False))
                    elif kind == 'skipped':
                        k = hn + ':wall budget of the run reached (job not run)'
                        agg['bound_hits'][k] = agg['bound_hits'].get(k, 0) + 1
                    elif kind == 'error':
                        agg['errors'].append('%s %s: %s' % (hn, list(prefix), payload))
                    else:
                        ph['results'].append((prefix, payload))
                pump()
            # ---- per harness: aggregate, replay, differential
            for hn, ph in per_h.items():
                h = ph['h']
                hstat = dict(name=hn, src=h['src'], defines=h['defines'], fp_mode=ph['cfg'].get('fp', 'havoc'), jobs=len(ph['results']), stats={}, vc={}, covers={}, bound_hits={})
                viols = []; smts = []; samples = []
                for prefix, r in ph['results']:
                    merge_counts(hstat['stats'], r['stats']); merge_counts(hstat['vc'], r['vc']); merge_counts(hstat['covers'], r['covers']); merge_counts(hstat['bound_hits'], r['bound_hits'])
                    agg['funcs'].update(r['funcs']); viols.extend(r['violations']); smts.extend(r['smt_dump']); samples.extend(r['samples'])
                    agg['unknown_vcs'].extend(r['unknown_vcs'][:3])
                hstat['wall_s'] = round(time.time() - ph['t0'], 1)
                merge_counts(agg['stats'], hstat['stats']); merge_counts(agg['vc'], hstat['vc']); merge_counts(agg['covers'], {hn + ':' + k: v for k, v in hstat['covers'].items()})
                merge_counts(agg['bound_hits'], {hn + ':' + k: v for k, v in hstat['bound_hits'].items()})
                # vacuity
                for c in h.get('covers', []):
                    if not hstat['covers'].get(c):
                        if any(k.startswith(hn + ':wall budget') for k in agg['bound_hits']) or any('exploration budget' in k for k in hstat['bound_hits']):
                            k2 = hn + ':cover point "%s" not reached within the budget' % c
                            agg['bound_hits'][k2] = agg['bound_hits'].get(k2, 0) + 1
                            continue
                        agg['errors'].append('%s: vacuous — cover point "%s" not reached on any feasible path' % (hn, c))
                nat = None
                if h.get('native', True):
                    try:
                        f = native_of(h)
                        if isinstance(f, Exception): raise f
                        nat = f.result()
                    except Exception as x: agg['errors'].append('%s native: %s' % (hn, x))
                # violations: group by key, replay up to 3 models per key
                groups = {}
                for v in viols: groups.setdefault((v['kind'], v['msg'], v['func']), []).append(v)
                rdir = os.path.join(VERIF, 'replay', prop); os.makedirs(rdir, exist_ok=True)
                for key, vs in sorted(groups.items()):
                    confirmed = None; tried = 0
                    for v in vs[:4]:
                        tried += 1
                        rid = hashlib.sha1(json.dumps([hn, v['choices'], v['draws']], sort_keys=True).encode()).hexdigest()[:10]
                        rp = os.path.join(rdir, '%s_%s.json' % (hn, rid))
                        rec = dict(property=prop, harness=hn, src=h['src'], defines=h['defines'], kind=v['kind'], msg=v['msg'], func=v['func'], stack=v['stack'],
                                   choices=v['choices'], draws=v['draws'], native=native_string(v['choices'], v['draws']))
                        json.dump(rec, open(rp, 'w'), indent=1)
                        if v['kind'] in ('global-state', 'race', 'uninit', 'env-contract'):
                            # facts about the executed IR of the real code (a store to a global on a feasible path / overlapping
                            # footprints of the two async tasks / a load of a never-written location whose value reaches a branch, an
                            # assertion or the environment): no native single run can exhibit them (ASan/UBSan do not track
                            # initialisation); confirmed in the encoding
                            rec['confirmed_in_encoding'] = True
                            json.dump(rec, open(rp, 'w'), indent=1)
                            confirmed = (v, rp); break
                        if nat is None: continue
                        rc, out, err = run_native(nat, rp)
                        if confirms(v['kind'], v['msg'], rc, out, err):
                            rec['native_rc'] = rc; rec['native_out'] = out[-400:]; rec['native_err'] = err[-1500:]
                            json.dump(rec, open(rp, 'w'), indent=1)
                            confirmed = (v, rp); break
                        else:
                            rec['native_rc'] = rc; rec['native_out'] = out[-400:]; rec['native_err'] = err[-600:]; rec['unconfirmed'] = True
                            json.dump(rec, open(rp, 'w'), indent=1)
                    if confirmed:
                        v, rp = confirmed
                        k = match_known(known, prop, hn, v)
                        ent = dict(harness=hn, kind=v['kind'], msg=v['msg'], func=v['func'], replay=rp, models=len(vs))
                        if k:
                            agg['known'].append(dict(ent, what=k.get('what', '')))
                            lines.append('KNOWN-FINDING: property=%s %s [%s: %s]' % (prop, k.get('what', v['msg']), hn, v['msg']))
                        else:
                            agg['confirmed'].append(ent)
                            lines.append('VIOLATION property=%s replay=%s' % (prop, rp))
                            lines.append('  %s: %s: %s (in %s)' % (hn, v['kind'], v['msg'], v['func']))
                            exit_code = 1
                    else:
                        agg['unconfirmed'].append(dict(harness=hn, kind=key[0], msg=key[1], func=key[2], models=len(vs), tried=tried))
                # differential validation of sample paths
                if nat is not None and samples:
                    rnd.shuffle(samples)
                    for sm in samples[:h.get('diff_samples', 6)]:
                        if any(o is None for o in sm['observes']) or sm.get('havoc'): continue   # paths that took an over-approximated float decision are not comparable
                        rp = os.path.join(work, 'sample.json')
                        json.dump(dict(native=native_string(sm['choices'], sm['draws'])), open(rp, 'w'))
                        rc, out, err = run_native(nat, rp)
                        obs = []
                        for l in out.split('\n'):
                            if l.startswith('OBS '): obs.append(int(l[4:]))
                            elif l.startswith('OBSF '): obs.append(float(l[5:]))
                        agg['diff']['runs'] += 1
                        exp = sm['observes']
                        same = rc == 0 and len(obs) == len(exp) and all((a == b) or (isinstance(a, float) and abs(a - b) <= 1e-6 * max(1, abs(a))) for a, b in zip(obs, exp))
                        if same: agg['diff']['agree'] += 1
                        else:
                            agg['diff']['disagree'] += 1
                            agg['errors'].append('%s: differential mismatch native rc=%s obs=%s vs engine %s (draws %s)' % (hn, rc, obs[:8], exp[:8], native_string(sm['choices'], sm['draws'])))
                    for sm in samples[:2]:
                        agg['samples'].append(dict(harness=hn, choices=sm['choices'], draws=[d['v'] for d in sm['draws']], path_constraints=sm['pc_size'], steps=sm['steps'], observes=sm['observes'][:12]))
                elif samples:
                    for sm in samples[:2]:
                        agg['samples'].append(dict(harness=hn, choices=sm['choices'], draws=[d['v'] for d in sm['draws']], path_constraints=sm['pc_size'], steps=sm['steps']))
                # cvc5 cross-check of sampled discharged VCs
                rnd.shuffle(smts)
                ncv = h.get('cvc5_samples', 3 if tier == 'quick' else 12)
                cv = [pool.submit(cvc5_check, smt, 30) for (_, _, smt) in smts[:ncv]]
                for f in cv:
                    o = f.result(); agg['cvc5']['checked'] += 1
                    if o == 'unsat': agg['cvc5']['agree'] += 1
                    elif o == 'sat':
                        agg['cvc5']['disagree'] += 1; agg['errors'].append('%s: cvc5 says sat on a VC z3 discharged' % hn)
                    else: agg['cvc5']['inconclusive'] += 1
                agg['harnesses'].append(hstat)
    finally:
        shutil.rmtree(work, ignore_errors=True)
    wall = time.time() - t0
    st = agg['stats']
    vc_tot = {k: sum(d.get(k, 0) for d in agg['vc'].values()) for k in ('proved', 'violated', 'unknown', 'trivial')}
    states = int(st.get('paths', 0))
    ev = dict(property_id=prop, tier=tier, seed=seed, level='model_checking',
              coverage=dict(states=max(states, 0), transitions=int(st.get('forks', 0) + st.get('merges', 0) + vc_tot['proved'] + vc_tot['violated'] + vc_tot['trivial']),
                            traces_validated_against_impl=agg['diff']['agree'] + len(agg['confirmed']) + len(agg['known']),
                            samples=agg['samples'] or [dict(note='no completed path')],
                            technique='symbolic execution of clang-14 LLVM IR of the real sources (irsx), every VC decided by z3 (mathematical integers + range obligations); counterexamples replayed natively',
                            functions_encoded=sorted(f for f in agg['funcs'] if 'coloquinte' in f)[:400],
                            functions_encoded_total=len(agg['funcs']),
                            harnesses=agg['harnesses'], vc_by_kind=agg['vc'], vc_totals=vc_tot,
                            queries=dict(solver_calls=int(st.get('solver_calls', 0)), sat=int(st.get('sat', 0)), unsat=int(st.get('unsat', 0)), unknown=int(st.get('unknown', 0)),
                                         decided_by_interval=int(st.get('interval_decided', 0)), solver_seconds=round(st.get('solver_time', 0.0), 2)),
                            cover_points=agg['covers'], bound_hits=agg['bound_hits'], cvc5_crosscheck=agg['cvc5'], differential=agg['diff'],
                            confirmed_violations=agg['confirmed'], known_findings=agg['known'], unconfirmed_counterexamples=agg['unconfirmed'],
                            undecided_vcs=agg['unknown_vcs'][:10], engine_errors=agg['errors'][:20], jobs=agg['jobs'], wall_budget_s=wall_budget,
                            outside_bounds=text.get('outside', ''), bounds=text.get('bounds', {}).get(tier, text.get('bounds', '')), design_ref=design_ref),
              assumptions=assumptions, wall_s=round(wall, 1), violations=len(agg['confirmed']))
    if states == 0:
        ev['coverage']['states'] = 1 if False else 0
    os.makedirs(os.path.join(VERIF, 'evidence'), exist_ok=True)
    if states >= 1 and ev['coverage']['transitions'] >= 1:
        json.dump(ev, open(os.path.join(VERIF, 'evidence', prop + '.json'), 'w'), indent=1, default=str)
    for l in lines: print(l)
    print('%s %s: %d paths, VCs proved=%d violated=%d unknown=%d trivial=%d, solver %.1fs, wall %.1fs, confirmed=%d known=%d unconfirmed=%d errors=%d' % (
        prop, tier, states, vc_tot['proved'], vc_tot['violated'], vc_tot['unknown'], vc_tot['trivial'], st.get('solver_time', 0.0), wall,
        len(agg['confirmed']), len(agg['known']), len(agg['unconfirmed']), len(agg['errors'])))
    for u in agg['unconfirmed']: print('  unconfirmed counterexample (no alarm): %s %s: %s' % (u['harness'], u['kind'], u['msg']))
    for b, n in sorted(agg['bound_hits'].items()): print('  bound hit: %s x%d' % (b, n))
    if agg['errors']:
        for e in agg['errors'][:10]: print('  ERROR: ' + e[:600])
        if exit_code == 0: exit_code = 2
    return exit_code
