# debugging entry: python3-vt -m irsx.runone file.ll [choices...]
import sys, time, json
from .ir import Module
from .engine import Engine, NeedChoice
def explore(mod, entry, cfg, prefix=()):
    out = []
    stack = [tuple(prefix)]
    while stack:
        p = stack.pop()
        e = Engine(mod, cfg)
        try:
            r = e.run(entry, p)
            out.append((p, r))
        except NeedChoice as n:
            for k in reversed(range(n.n)): stack.append(p + (k,))
    return out
if __name__ == '__main__':
    mod = Module(sys.argv[1])
    cfg = json.loads(sys.argv[2]) if len(sys.argv) > 2 else {}
    t = time.time()
    for p, r in explore(mod, '@harness', cfg):
        print(p, {k: r['stats'][k] for k in ('paths', 'paths_done', 'forks', 'merges', 'merge_fail', 'solver_calls', 'unknown')}, 'solver %.1fs wall %.1fs' % (r['stats']['solver_time'], r['wall']))
        print('   vc', r['vc'], 'covers', r['covers'], 'bounds', r['bound_hits'])
        for v in r['violations']: print('   VIOL', v['kind'], v['msg'], v['func'], v['draws'])
    print('total wall %.1f' % (time.time() - t))
