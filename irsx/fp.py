# irsx floating point: concrete (native), and three symbolic modes (cfg['fp']): 'exact' (z3 FloatingPoint, for counterexample
# search and tiny proofs), 'real' (linear error model fl(e) = e + eta, |eta| <= u*M(e), for proofs), 'havoc' (unconstrained).
import z3, math, struct
from fractions import Fraction
from .ir import Ptr, NULL, UNDEF, sgn
from .values import SV, SF, Bundle, IV, TRUE, FALSE, zt, zb, rng, f32, tainted

RNE = z3.RNE(); RTZ = z3.RTZ()
def sort_of(bits): return z3.Float32() if bits == 32 else z3.Float64()
U = {32: Fraction(1, 2 ** 24), 64: Fraction(1, 2 ** 53)}
FMAX = {32: Fraction(struct.unpack('f', struct.pack('I', 0x7f7fffff))[0]), 64: Fraction(1.7976931348623157e308)}
MANT = {32: 24, 64: 53}

def install(E):
    from .engine import EngineError, PathEnd, NeedFork

    def mode(s): return s.cfg['fp']
    def rnd(v, bits): return f32(v) if bits == 32 else v
    def fr_(v): return Fraction(v) if not isinstance(v, Fraction) else v
    def rv(x):
        """z3 Real term of a python float / Fraction"""
        f = Fraction(x)
        return z3.RealVal(str(f.numerator) + '/' + str(f.denominator)) if f.denominator != 1 else z3.RealVal(f.numerator)

    # ---- 'uf' mode: floats are uninterpreted values and every float operation an uninterpreted FUNCTION of its operands
    # (congruence: equal operands give equal results).  Over-approximates IEEE like 'havoc', but two executions of the same
    # computation on the same inputs provably agree, so that whole runs can be related to each other.
    _UF = {}
    RS = z3.RealSort(); IS = z3.IntSort(); BS = z3.BoolSort()
    def ufun(name, *sorts):
        f = _UF.get(name)
        if f is None: f = z3.Function(name, *sorts); _UF[name] = f
        return f
    def ufv(name, bits, args, tn):
        return SF(ufun('uf_%s_%d_%d' % (name, bits, len(args)), *([RS] * len(args) + [RS]))(*[a.t if isinstance(a, SF) else a for a in args]), bits, taint=tn)
    E.fp_ufv = staticmethod(ufv)
    # values whose only symbolic part is the CHOICE among concrete alternatives (ite trees with concrete leaves, from select /
    # min / max / merged paths) are computed leaf by leaf with the concrete semantics, so that the same computation performed
    # before and after the choice was decided yields comparable terms
    def ctree(t, depth=0):
        if z3.is_rational_value(t) or z3.is_int_value(t):
            return ('c', Fraction(t.numerator_as_long(), t.denominator_as_long()) if z3.is_rational_value(t) else Fraction(t.as_long()))
        if depth < 4 and z3.is_app_of(t, z3.Z3_OP_ITE):
            c, a, b = t.children()
            ca = ctree(a, depth + 1); cb = ctree(b, depth + 1)
            if ca is not None and cb is not None: return ('ite', c, ca, cb)
        return None
    def ct_leaves(ct): return 1 if ct[0] == 'c' else ct_leaves(ct[2]) + ct_leaves(ct[3])
    def ct_apply(f, cts):
        """f: python function of the concrete leaf values -> python value (float / int / bool); returns a tree of results"""
        for i, ct in enumerate(cts):
            if ct[0] == 'ite':
                return ('ite', ct[1], ct_apply(f, cts[:i] + [ct[2]] + cts[i + 1:]), ct_apply(f, cts[:i] + [ct[3]] + cts[i + 1:]))
        return ('c', f(*[ct[1] for ct in cts]))
    def ct_term(ct, leaf):
        if ct[0] == 'c': return leaf(ct[1])
        return z3.If(ct[1], ct_term(ct[2], leaf), ct_term(ct[3], leaf))
    def ct_args(args):
        cts = []
        n = 1
        for a in args:
            t = a.t if isinstance(a, SF) else (zt(a) if isinstance(a, SV) else None)
            if t is None:
                if isinstance(a, (int, float)) and a == a and a not in (math.inf, -math.inf): cts.append(('c', Fraction(a))); continue
                return None
            ct = ctree(t)
            if ct is None: return None
            n *= ct_leaves(ct)
            if n > 16: return None
            cts.append(ct)
        return cts if any(c[0] == 'ite' for c in cts) else None
    def fleaf(v):
        if isinstance(v, float) and (v != v or v in (math.inf, -math.inf)):
            return ufun('uf_special', IS, RS)(z3.IntVal(0 if v != v else (1 if v > 0 else 2)))
        return rv(Fraction(v))
    def tofloat(fr, bits): return rnd(float(fr), bits)
    E.fp_ct = staticmethod(lambda args: ct_args(args))
    def lift(s, v, bits):
        """python float -> SF of the current mode"""
        if isinstance(v, SF): return v
        m = mode(s)
        if m == 'uf':
            if v != v: return SF(ufun('uf_special', IS, RS)(z3.IntVal(0)), bits)
            if v in (math.inf, -math.inf): return SF(ufun('uf_special', IS, RS)(z3.IntVal(1 if v > 0 else 2)), bits)
            return SF(rv(Fraction(v)), bits)
        if m == 'exact': return SF(z3.FPVal(v, sort_of(bits)), bits)
        if m == 'real':
            if v != v or v in (math.inf, -math.inf): raise EngineError('non-finite float constant in real-error mode')
            f = Fraction(v)
            return SF(rv(f), bits, f, f, exact=(f.denominator == 1))
        return SF(None, bits)

    def fp_fresh(s, st, bits, name, lo=None, hi=None, taint=False):
        m = mode(s)
        s.fresh += 1
        nm = '%s!%d' % (name, s.fresh)
        if m == 'exact':
            t = z3.FP(nm, sort_of(bits))
            cs = [z3.Not(z3.fpIsNaN(t)), z3.Not(z3.fpIsInf(t))]
            if lo is not None: cs.append(z3.fpGEQ(t, z3.FPVal(lo, sort_of(bits))))
            if hi is not None: cs.append(z3.fpLEQ(t, z3.FPVal(hi, sort_of(bits))))
            s.add_pc(st, z3.And(*cs))
            return SF(t, bits, lo, hi, taint=taint)
        if m == 'uf': return SF(z3.Real(nm), bits, taint=taint)
        if m == 'real':
            t = z3.Real(nm)
            if lo is None or hi is None:
                lo = -float(FMAX[bits]) if lo is None else lo; hi = float(FMAX[bits]) if hi is None else hi
            s.add_pc(st, z3.And(t >= rv(lo), t <= rv(hi)))
            return SF(t, bits, Fraction(lo), Fraction(hi), taint=taint)
        return SF(None, bits, lo, hi, taint=taint)
    E.fp_fresh = fp_fresh

    def fp_ite(s, c, a, b):
        bits = a.bits if isinstance(a, SF) else (b.bits if isinstance(b, SF) else 64)
        if not isinstance(a, SF) and not isinstance(b, SF) and mode(s) == 'havoc': return SF(None, 64)
        a = lift(s, a, bits); b = lift(s, b, bits)
        m = mode(s)
        if m == 'havoc': return SF(None, bits, taint=tainted(a, b))
        lo = None if a.lo is None or b.lo is None else min(a.lo, b.lo)
        hi = None if a.hi is None or b.hi is None else max(a.hi, b.hi)
        return SF(z3.If(c, a.t, b.t), bits, lo, hi, exact=a.exact and b.exact, taint=tainted(a, b))
    E.fp_ite = fp_ite

    # ------------------------------------------------------ real-error helpers
    def mag(x):
        return None if x.lo is None or x.hi is None else max(abs(x.lo), abs(x.hi))
    def rounded(s, st, e, lo, hi, bits, tn, intval):
        """result of rounding the exact real term e with bounds [lo,hi]"""
        M = max(abs(lo), abs(hi))
        if M > FMAX[bits]:
            raise EngineError('real-error mode: cannot exclude float overflow (|value| bound %s)' % float(M))
        isint = intval is not None and intval is not False
        if isint and M <= 2 ** MANT[bits]:
            return SF(e, bits, lo, hi, exact=True, taint=tn)
        if isint and intval is not True and M <= 2 ** (MANT[bits] + 12):
            # integer -> float conversion beyond the mantissa, encoded EXACTLY (round to nearest, ties to even) binade by binade:
            # in binade j (2^(p+j) < |x| <= 2^(p+j+1)) the result is a multiple of 2^(j+1)
            memo = st.__dict__.setdefault('flmemo', {})
            key = (e.get_id(), bits, 'i')
            hit = memo.get(key)
            if hit is not None: return hit[1]
            x = intval; P = 2 ** MANT[bits]
            s.fresh += 1
            ik = z3.Int('i2f!%d' % s.fresh); k = z3.Int('i2fk!%d' % s.fresh)
            cs = [z3.Implies(z3.And(x <= P, x >= -P), ik == x)]
            j = 0
            while P * 2 ** j < M:
                step = 2 ** (j + 1)
                inb = z3.Or(z3.And(x > P * 2 ** j, x <= P * 2 ** (j + 1)), z3.And(x < -P * 2 ** j, x >= -P * 2 ** (j + 1)))
                cs.append(z3.Implies(inb, z3.And(ik == step * k, 2 * (ik - x) <= step, 2 * (x - ik) <= step,
                                                 z3.Implies(z3.Or(2 * (ik - x) == step, 2 * (x - ik) == step), k % 2 == 0))))
                j += 1
            s.add_pc(st, z3.And(*cs))
            s.stats['fp_int_roundings'] = s.stats.get('fp_int_roundings', 0) + 1
            err = Fraction(2 ** j, 2)
            res = SF(z3.ToReal(ik), bits, lo - err, hi + err, exact=True, taint=tn, ik=ik)
            memo[key] = (e, res)
            return res
        if M == 0: return SF(rv(0), bits, Fraction(0), Fraction(0), exact=True, taint=tn)
        err = U[bits] * M
        # smallest normal: subnormal rounding adds an absolute error
        tiny = Fraction(1, 2 ** 149) if bits == 32 else Fraction(1, 2 ** 1074)
        err = err + tiny
        # rounding is a function: the same exact expression rounds to the same value (memo per path state)
        memo = st.__dict__.setdefault('flmemo', {})
        key = (e.get_id(), bits)
        hit = memo.get(key)
        if hit is not None: return hit[1]
        s.fresh += 1
        r = z3.Real('fl!%d' % s.fresh)
        s.add_pc(st, z3.And(r - e <= rv(err), e - r <= rv(err)))
        if s.cfg.get('fp_rel'):
            # relative bound as well: |fl(e) - e| <= u*|e| (+ the subnormal term)
            ae = z3.If(e >= 0, e, -e)
            s.add_pc(st, z3.And(r - e <= rv(U[bits]) * ae + rv(tiny), e - r <= rv(U[bits]) * ae + rv(tiny)))
        s.stats['fp_roundings'] = s.stats.get('fp_roundings', 0) + 1
        res = SF(r, bits, lo - err, hi + err, exact=False, taint=tn)
        memo[key] = (e, res)
        return res

    def fbin(s, st, op, a, b, bits):
        ca = not isinstance(a, SF); cb = not isinstance(b, SF)
        if a is UNDEF or b is UNDEF: raise EngineError('float op on undef')
        if ca and cb:
            try:
                if op == 'fadd': r = a + b
                elif op == 'fsub': r = a - b
                elif op == 'fmul': r = a * b
                elif op == 'fdiv':
                    if b == 0: r = math.nan if (a == 0 or a != a) else math.copysign(math.inf, a) * math.copysign(1.0, b)
                    else: r = a / b
                elif op == 'frem': r = math.fmod(a, b) if b != 0 else math.nan
                else: raise EngineError(op)
            except OverflowError: r = math.inf
            return rnd(r, bits)
        m = mode(s)
        a = lift(s, a, bits); b = lift(s, b, bits)
        tn = tainted(a, b)
        if m == 'havoc': return SF(None, bits, taint=tn)
        if m == 'uf':
            cts = ct_args([a, b])
            if cts is not None:
                r = ct_apply(lambda x, y: fbin(s, st, op, tofloat(x, bits), tofloat(y, bits), bits), cts)
                return SF(ct_term(r, fleaf), bits, taint=tn)
            return ufv(op, bits, [a, b], tn)
        if m == 'exact':
            f = {'fadd': z3.fpAdd, 'fsub': z3.fpSub, 'fmul': z3.fpMul, 'fdiv': z3.fpDiv}.get(op)
            if f is None: return SF(z3.fpRem(a.t, b.t), bits, taint=tn)
            return SF(f(RNE, a.t, b.t), bits, taint=tn)
        # real error model
        if mag(a) is None or mag(b) is None: raise EngineError('real-error mode: operand without magnitude bound')
        # x + 0, x - 0, 0 + x are exact
        if op in ('fadd', 'fsub') and b.lo == b.hi == 0: return a
        if op == 'fadd' and a.lo == a.hi == 0: return b
        if op == 'fadd':
            return rounded(s, st, a.t + b.t, a.lo + b.lo, a.hi + b.hi, bits, tn, a.exact and b.exact)
        if op == 'fsub':
            return rounded(s, st, a.t - b.t, a.lo - b.hi, a.hi - b.lo, bits, tn, a.exact and b.exact)
        if op == 'fmul':
            ps = (a.lo * b.lo, a.lo * b.hi, a.hi * b.lo, a.hi * b.hi)
            lo, hi = min(ps), max(ps)
            # multiplication by a power of two (or 0, +-1) is exact
            for x, y in ((a, b), (b, a)):
                if x.lo == x.hi:
                    c = x.lo
                    if c == 0: return SF(rv(0), bits, Fraction(0), Fraction(0), exact=True, taint=tn)
                    if abs(c).numerator == 1 or abs(c).denominator == 1:
                        n = abs(c).numerator * abs(c).denominator
                        if n & (n - 1) == 0:
                            return SF(y.t * rv(c), bits, lo, hi, exact=y.exact and c.denominator == 1, taint=tn)
            return rounded(s, st, a.t * b.t, lo, hi, bits, tn, a.exact and b.exact)
        if op == 'fdiv':
            if b.lo <= 0 <= b.hi:
                # the interval cannot exclude zero: ask the solver (integer-valued divisors: at least 1 in magnitude)
                r1, _ = s.query(st, b.t <= 0)
                if r1 == 'unsat' and b.exact: b = SF(b.t, b.bits, Fraction(1), max(b.hi, Fraction(1)), exact=True, taint=b.taint)
                else:
                    r2, _ = s.query(st, b.t >= 0)
                    if r2 == 'unsat' and b.exact: b = SF(b.t, b.bits, min(b.lo, Fraction(-1)), Fraction(-1), exact=True, taint=b.taint)
                    else: raise EngineError('real-error mode: cannot exclude division by zero')
            qs = (a.lo / b.lo, a.lo / b.hi, a.hi / b.lo, a.hi / b.hi)
            return rounded(s, st, a.t / b.t, min(qs), max(qs), bits, tn, False)
        raise EngineError('real-error mode: ' + op)

    def op_fbin(s, st, fr, ins):
        bits = 32 if s.tc.resolve(ins.ty).k == 'float' else 64
        fr.regs[ins.dst] = fbin(s, st, ins.op, s.get(fr, ins.a[0]), s.get(fr, ins.a[1]), bits); fr.ip += 1
    for o in ('fadd', 'fsub', 'fmul', 'fdiv', 'frem'): setattr(E, 'op_' + o, op_fbin)
    E.fbin = fbin
    def fneg(s, st, a, bits):
        if not isinstance(a, SF): return -a
        m = mode(s)
        if m == 'havoc': return SF(None, bits, taint=a.taint)
        if m == 'uf':
            cts = ct_args([a])
            if cts is not None: return SF(ct_term(ct_apply(lambda x: -tofloat(x, bits), cts), fleaf), bits, taint=a.taint)
            return ufv('neg', bits, [a], a.taint)
        if m == 'exact': return SF(z3.fpNeg(a.t), bits, taint=a.taint)
        return SF(-a.t, bits, None if a.hi is None else -a.hi, None if a.lo is None else -a.lo, exact=a.exact, taint=a.taint)
    E.fneg = fneg
    def op_fneg(s, st, fr, ins):
        bits = 32 if s.tc.resolve(ins.ty).k == 'float' else 64
        fr.regs[ins.dst] = fneg(s, st, s.get(fr, ins.a[0]), bits); fr.ip += 1
    E.op_fneg = op_fneg
    def fabs(s, st, a, bits):
        if not isinstance(a, SF): return abs(a)
        m = mode(s)
        if m == 'havoc': return SF(None, bits, taint=a.taint)
        if m == 'uf':
            cts = ct_args([a])
            if cts is not None: return SF(ct_term(ct_apply(lambda x: abs(tofloat(x, bits)), cts), fleaf), bits, taint=a.taint)
            return ufv('abs', bits, [a], a.taint)
        if m == 'exact': return SF(z3.fpAbs(a.t), bits, taint=a.taint)
        lo = Fraction(0) if a.lo <= 0 <= a.hi else min(abs(a.lo), abs(a.hi))
        return SF(z3.If(a.t >= 0, a.t, -a.t), bits, lo, max(abs(a.lo), abs(a.hi)), exact=a.exact, taint=a.taint)
    E.fabs = fabs

    def fcmp(s, st, pred, a, b, bits):
        if a is UNDEF or b is UNDEF: raise EngineError('fcmp on undef')
        if pred == 'true': return 1
        if pred == 'false': return 0
        if not isinstance(a, SF) and not isinstance(b, SF):
            un = (a != a) or (b != b)
            if pred == 'ord': return int(not un)
            if pred == 'uno': return int(un)
            base = {'eq': a == b, 'gt': a > b, 'ge': a >= b, 'lt': a < b, 'le': a <= b, 'ne': a != b}[pred[1:]]
            if pred[0] == 'o': return int((not un) and base)
            return int(un or base)
        m = mode(s)
        a = lift(s, a, bits); b = lift(s, b, bits)
        tn = tainted(a, b)
        if m == 'havoc':
            st.havoc_used = True
            return s.newbool('fcmp', taint='havoc')
        if m == 'uf':
            cts = ct_args([a, b])
            if cts is not None:
                r = ct_apply(lambda x, y: bool(fcmp(s, st, pred, tofloat(x, bits), tofloat(y, bits), bits)), cts)
                return SV(z3.simplify(ct_term(r, lambda v: z3.BoolVal(bool(v)))), 0, 1, taint=tn)
            if a.t.eq(b.t):
                # the same value on both sides: decided up to NaN
                if pred in ('ueq', 'ule', 'uge'): return 1
                if pred in ('one', 'olt', 'ogt'): return 0
                o = ufun('uf_ord_%d' % bits, RS, BS)(a.t)
                st.havoc_used = True
                if pred in ('oeq', 'ole', 'oge', 'ord'): return SV(o, 0, 1, taint='havoc')
                return SV(z3.Not(o), 0, 1, taint='havoc')        # une, ult, ugt, uno
            st.havoc_used = True
            return SV(ufun('uf_cmp_%s_%d' % (pred, bits), RS, RS, BS)(a.t, b.t), 0, 1, taint='havoc')
        if m == 'exact':
            un = z3.Or(z3.fpIsNaN(a.t), z3.fpIsNaN(b.t))
            if pred == 'ord': return SV(z3.Not(un), 0, 1, taint=tn)
            if pred == 'uno': return SV(un, 0, 1, taint=tn)
            base = {'eq': z3.fpEQ, 'gt': z3.fpGT, 'ge': z3.fpGEQ, 'lt': z3.fpLT, 'le': z3.fpLEQ}.get(pred[1:])
            bt = base(a.t, b.t) if base else z3.Not(z3.fpEQ(a.t, b.t))
            if pred[0] == 'o':
                if pred == 'one': bt = z3.And(z3.Not(un), bt)
                return SV(bt, 0, 1, taint=tn)
            return SV(z3.Or(un, bt), 0, 1, taint=tn)
        # real: all values finite
        if pred == 'ord': return 1
        if pred == 'uno': return 0
        k = pred[1:]
        if a.lo is not None and b.lo is not None:
            if k == 'lt':
                if a.hi < b.lo: return 1
                if a.lo >= b.hi: return 0
            if k == 'le':
                if a.hi <= b.lo: return 1
                if a.lo > b.hi: return 0
            if k == 'gt':
                if a.lo > b.hi: return 1
                if a.hi <= b.lo: return 0
            if k == 'ge':
                if a.lo >= b.hi: return 1
                if a.hi < b.lo: return 0
        bt = {'eq': lambda: a.t == b.t, 'gt': lambda: a.t > b.t, 'ge': lambda: a.t >= b.t, 'lt': lambda: a.t < b.t, 'le': lambda: a.t <= b.t, 'ne': lambda: a.t != b.t}[k]()
        return SV(bt, 0, 1, taint=tn)
    E.fcmp = fcmp
    def op_fcmp(s, st, fr, ins):
        bits = 32 if s.tc.resolve(ins.ty).k == 'float' else 64
        fr.regs[ins.dst] = fcmp(s, st, ins.x, s.get(fr, ins.a[0]), s.get(fr, ins.a[1]), bits); fr.ip += 1
    E.op_fcmp = op_fcmp

    # ------------------------------------------------------ conversions
    def fp_from_int(s, st, x, bits):
        if isinstance(x, int): return rnd(float(x), bits) if abs(x) < 2 ** 1000 else math.inf
        m = mode(s)
        if m == 'havoc': return SF(None, bits, taint=x.taint)
        if m == 'uf':
            cts = ct_args([x])
            if cts is not None: return SF(ct_term(ct_apply(lambda v: rnd(float(v), bits), cts), fleaf), bits, taint=x.taint)
            return SF(ufun('uf_i2f_%d' % bits, IS, RS)(zt(x)), bits, taint=x.taint)
        if m == 'exact':
            return SF(z3.fpRealToFP(RNE, z3.ToReal(zt(x)), sort_of(bits)), bits, x.lo, x.hi, taint=x.taint)
        r = rounded(s, st, z3.ToReal(zt(x)), Fraction(x.lo), Fraction(x.hi), bits, x.taint, zt(x) if s.cfg.get('fp_int_exact', True) else True)
        if r.exact and r.ik is None: r = SF(r.t, r.bits, r.lo, r.hi, exact=True, taint=r.taint, ik=zt(x))
        return r
    E.fp_from_int = fp_from_int
    def fp_to_int(s, st, x, bits, w, signed):
        lo, hi = rng(w) if signed else (0, (1 << w) - 1)
        if not isinstance(x, SF):
            if x is UNDEF: raise EngineError('fptosi undef')
            if x != x or x in (math.inf, -math.inf) or not (lo - 1 < x < hi + 1):
                raise s.fail(st, 'ub', 'float to integer conversion out of range (%r)' % x)
            v = int(x)
            return v if signed else sgn(v, w)
        m = mode(s)
        if m == 'havoc':
            hr = getattr(st, 'havoc_range', None)
            if hr is not None and signed: v = s.newsym(st, 'fptoi', max(hr[0], lo), min(hr[1], hi))
            else: v = s.newsym(st, 'fptoi', *rng(w))
            v.taint = 'havoc'; return v
        if m == 'uf':
            cts = ct_args([x])
            if cts is not None:
                def conv(v):
                    fv = tofloat(v, bits)
                    if not (lo - 1 < fv < hi + 1): raise s.fail(st, 'ub', 'float to integer conversion out of range (%r)' % fv)
                    return int(fv)
                r = ct_apply(conv, cts)
                v = SV(ct_term(r, lambda q: z3.IntVal(int(q))), lo, hi, taint=x.taint)
                return v if signed else s.fromunsigned(v, w)
            t = ufun('uf_f2i_%d_%d' % (w, 1 if signed else 0), RS, IS)(x.t)
            lo2, hi2 = rng(w) if signed else (0, (1 << w) - 1)
            hr = getattr(st, 'havoc_range', None)
            if hr is not None and signed: lo2, hi2 = max(hr[0], lo2), min(hr[1], hi2)
            s.add_pc(st, z3.And(t >= lo2, t <= hi2))
            v = SV(t, lo2, hi2, taint='havoc')
            return v if signed else s.fromunsigned(v, w)
        if m == 'exact':
            bv = z3.fpToSBV(RTZ, x.t, z3.BitVecSort(w)) if signed else z3.fpToUBV(RTZ, x.t, z3.BitVecSort(w))
            iv = z3.BV2Int(bv, is_signed=signed)
            s.fresh += 1
            r = z3.Int('fptoi!%d' % s.fresh)
            s.add_pc(st, r == iv)
            v = SV(r, lo, hi, taint=x.taint)
            return v if signed else s.fromunsigned(v, w)
        # real: truncation toward zero
        if x.lo is None: raise EngineError('real-error mode: fptosi of unbounded value')
        tlo = math.ceil(x.lo) if x.lo < 0 else math.floor(x.lo)
        thi = math.floor(x.hi) if x.hi > 0 else math.ceil(x.hi)
        if tlo < lo or thi > hi:
            s.check_vc(st, z3.Or(x.t <= rv(lo - 1), x.t >= rv(hi + 1)), 'ub', 'float to integer conversion out of range')
            tlo = max(tlo, lo); thi = min(thi, hi)
        if x.ik is not None:
            v = SV(x.ik, max(tlo, lo), min(thi, hi), taint=x.taint)
            return v if signed else s.fromunsigned(v, w)
        if x.exact:
            t = z3.ToInt(x.t)
        else:
            t = z3.If(x.t >= 0, z3.ToInt(x.t), -z3.ToInt(-x.t))
        s.fresh += 1
        r = z3.Int('fptoi!%d' % s.fresh)
        s.add_pc(st, r == t)
        v = SV(r, tlo, thi, taint=x.taint)
        return v if signed else s.fromunsigned(v, w)
    E.fp_to_int = fp_to_int
    def fp_ext(s, st, x):
        if not isinstance(x, SF): return x
        m = mode(s)
        if m == 'havoc': return SF(None, 64, taint=x.taint)
        if m == 'uf': return SF(x.t, 64, taint=x.taint)      # widening is exact: the value is kept
        if m == 'exact': return SF(z3.fpFPToFP(RNE, x.t, z3.Float64()), 64, x.lo, x.hi, taint=x.taint)
        return SF(x.t, 64, x.lo, x.hi, exact=x.exact, taint=x.taint)
    E.fp_ext = fp_ext
    def fp_trunc(s, st, x):
        if not isinstance(x, SF): return f32(x)
        m = mode(s)
        if m == 'havoc': return SF(None, 32, taint=x.taint)
        if m == 'uf':
            cts = ct_args([x])
            if cts is not None: return SF(ct_term(ct_apply(lambda v: f32(float(v)), cts), fleaf), 32, taint=x.taint)
            return ufv('trunc', 32, [x], x.taint)
        if m == 'exact': return SF(z3.fpFPToFP(RNE, x.t, z3.Float32()), 32, x.lo, x.hi, taint=x.taint)
        return rounded(s, st, x.t, x.lo, x.hi, 32, x.taint, x.exact)
    E.fp_trunc = fp_trunc
    def fp_round_int(s, st, x, bits, how):
        """round / floor / ceil to an integer-valued float"""
        if not isinstance(x, SF):
            if x != x or x in (math.inf, -math.inf): return x
            if how == 'round': return float(math.floor(abs(x) + 0.5)) * (1 if x >= 0 else -1)
            return float(math.floor(x)) if how == 'floor' else float(math.ceil(x))
        m = mode(s)
        if m == 'havoc': return SF(None, bits, taint=x.taint)
        if m == 'uf': return ufv(how, bits, [x], x.taint)
        if m == 'exact':
            rm = {'round': z3.RNA(), 'floor': z3.RTN(), 'ceil': z3.RTP()}[how]
            return SF(z3.fpRoundToIntegral(rm, x.t), bits, taint=x.taint)
        if x.exact: return x
        # integer k with a linear characterisation (ties may go either way: sound over-approximation)
        s.fresh += 1
        k = z3.Int('rint!%d' % s.fresh); kr = z3.ToReal(k)
        half = rv(Fraction(1, 2))
        if how == 'round':
            s.add_pc(st, z3.And(kr - x.t <= half, x.t - kr <= half))
            lo = Fraction(math.floor(x.lo + Fraction(1, 2))) if x.lo >= 0 else -Fraction(math.floor(-x.lo + Fraction(1, 2)))
            hi = Fraction(math.floor(x.hi + Fraction(1, 2))) if x.hi >= 0 else -Fraction(math.floor(-x.hi + Fraction(1, 2)))
        elif how == 'floor':
            s.add_pc(st, z3.And(kr <= x.t, x.t < kr + 1)); lo = Fraction(math.floor(x.lo)); hi = Fraction(math.floor(x.hi))
        else:
            s.add_pc(st, z3.And(kr - 1 < x.t, x.t <= kr)); lo = Fraction(math.ceil(x.lo)); hi = Fraction(math.ceil(x.hi))
        s.add_pc(st, z3.And(k >= int(lo), k <= int(hi)))
        return SF(kr, bits, lo, hi, exact=True, taint=x.taint, ik=k)
    E.fp_round_int = fp_round_int
    E.fp_lift = lift
